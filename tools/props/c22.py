"""C22 — malformed input produces a diagnostic, never a crash.
Theorems: coq/C22/Props.v (the response-file tokenizer as a total function: every input gives arguments or one of four
errors; escaped arguments over all code points read back; each error has an input).
Tie T2, model vs implementation: generated option strings — structured (quotes, the other quote inside, escapes,
Unicode white space, empty quotes) and malformed — go through libwild's arguments_from_string (hook, catch_unwind) and
through C22.Model.arguments_from_string in Coq: same arguments or the same error.
Tie T2, the property on the real binary: byte-level mutations (targeted at ELF header, section headers, symbol table
and relocation fields; random flips; truncation at every structure boundary) of valid objects, archives, thin
archives and shared objects, token-level mutations and garbage for linker scripts, version scripts, export lists and
response files, and random argument lists are given to wild under a time limit: the outcome must be a successful link
or a non-zero exit with a message; a panic message, a signal, an abort or a timeout is a violation.  The archive
iterator is also driven directly (hook) on every prefix and on header mutations of real archives: no panic, entries
inside the file."""
from wvlib import *
import tempfile, shutil, struct

TRUSTED = [
    "Coq 8.16.1 kernel incl. vm_compute; axioms: none",
    "only the tokenizer has a model; the ELF, archive, linker-script and version-script parsers (the `object` crate and winnow grammars) are exercised by mutation, which samples the input space",
    "white space in the model is the list of code points for which Rust's char::is_whitespace holds (Unicode 15 White_Space)",
    "a run counts as a hang after 20 s",
]

WS = [9, 10, 11, 12, 13, 32, 0x85, 0xA0, 0x1680] + list(range(0x2000, 0x200B)) + [0x2028, 0x2029, 0x202F, 0x205F, 0x3000]
ERRS = {"Missing closing": "MissingClosingQuote", "Expected white space": "ExpectedWhitespace", "Missing opening quote": "MissingOpeningQuote", "Invalid escape": "InvalidEscape"}


def gen_tok(rng):
    if rng.random() < 0.35:
        alphabet = ['"', "'", "\\", " ", "\t", "\n", "a", "b", "-", "=", " ", " ", "é", "/", "@"]
        return "".join(rng.choice(alphabet) for _ in range(rng.randrange(0, 14)))
    parts = []
    for _ in range(rng.randrange(0, 6)):
        w = "".join(rng.choice("abc-=/.é\\ \"'") for _ in range(rng.randrange(0, 6)))
        style = rng.random()
        if style < 0.3:
            parts.append('"' + w.replace('"', "") + '"')
        elif style < 0.5:
            parts.append("'" + w.replace("'", "") + "'")
        elif style < 0.8:
            parts.append("".join(("\\" + c) if c in "\\ \"'" else c for c in w))
        else:
            parts.append(w)
    return rng.choice([" ", "\n", "\t", "  ", " "]).join(parts) + rng.choice(["", " ", "\n", "\\"])


def mutate_bytes(rng, data, hot):
    b = bytearray(data)
    k = rng.random()
    if k < 0.25 and len(b) > 8:
        return bytes(b[:rng.choice(hot + [rng.randrange(len(b))]) % len(b)])
    for _ in range(rng.choice([1, 1, 2, 4, 16])):
        if hot and rng.random() < 0.7:
            pos = (rng.choice(hot) + rng.randrange(0, 8)) % len(b)
        else:
            pos = rng.randrange(len(b))
        b[pos] = rng.choice([0, 0xff, 0x80, 0x7f, b[pos] ^ (1 << rng.randrange(8)), rng.randrange(256)])
    return bytes(b)


def hot_offsets(data):
    """offsets of header fields worth hitting in an ELF file"""
    hot = list(range(0, 64, 4))
    try:
        shoff = struct.unpack_from("<Q", data, 0x28)[0]
        shnum = struct.unpack_from("<H", data, 0x3c)[0]
        for i in range(min(shnum, 40)):
            base = shoff + 64 * i
            hot += [base, base + 4, base + 8, base + 16, base + 24, base + 32, base + 40, base + 44, base + 48, base + 56]
            n, t, fl, ad, off, sz, lk, inf, al, es = struct.unpack_from("<IIQQQQIIQQ", data, base)
            if t in (2, 4, 11) and sz < 4096:
                hot += list(range(off, off + sz, 8))
    except struct.error:
        pass
    return [h for h in hot if h < len(data)]


SCRIPT = "SECTIONS { . = 0x400000 + SIZEOF_HEADERS; .text : { *(.text .text.*) } .data : ALIGN(16) { *(.data) } /DISCARD/ : { *(.comment) } }\nENTRY(_start)\n"
VSCRIPT = "VER_1 { global: foo; extern \"C++\" { ns::*; }; local: *; };\nVER_2 { global: bar; } VER_1;\n"
ELIST = "{ foo; bar*; extern \"C\" { baz; }; };\n"
TOKENS = ["{", "}", "(", ")", ";", ":", "*", ",", "=", "+", "/DISCARD/", "SECTIONS", "ALIGN", "0x", "99999999999999999999", "\"", "/*", "*/", ".", "PROVIDE", "INPUT", "GROUP", "global", "local", "extern", "\x00", "\xff"]
OPTIONS = ["-o", "-L", "-l", "-e", "-z", "-T", "-soname", "--hash-style=", "--build-id=", "-m", "--version-script=", "--dynamic-list=", "--defsym=", "--section-start=", "--threads=", "-rpath", "--sysroot=",
           "--wrap=", "--exclude-libs=", "-Bsymbolic", "--gc-sections", "-shared", "-pie", "-r", "-static", "--entry=", "--image-base=", "-z max-page-size=", "--pack-dyn-relocs=", "--unresolved-symbols=", "-O", "--sort-section=",
           "--export-dynamic-symbol=", "--undefined=", "-y", "--trace-symbol=", "@",
           "--push-state", "--pop-state", "--pop-state", "--as-needed", "--no-as-needed", "--whole-archive", "--no-whole-archive", "-Bstatic", "-Bdynamic", "--start-group", "--end-group",
           "--start-lib", "--end-lib", "-lb", "-L.", "a.o", "libb.a"]
VALUES = ["", "0", "-1", "0x", "0xffffffffffffffffffff", "x" * 300, "=", "a=b=c", "\"", ".text=0x10", "99999999999999999999", "gnu", "none", "../" * 20, "/dev/null", "/nonexistent/x", "é", " ", ","]


def mutate_text(rng, text):
    toks = re.findall(r"\s+|[A-Za-z_./*0-9]+|.", text)
    k = rng.random()
    if k < 0.15:
        return "".join(rng.choice(TOKENS + ["\n", " "]) for _ in range(rng.randrange(1, 30)))
    for _ in range(rng.choice([1, 1, 2, 3])):
        if not toks:
            break
        i = rng.randrange(len(toks))
        op = rng.random()
        if op < 0.35:
            del toks[i]
        elif op < 0.7:
            toks.insert(i, rng.choice(TOKENS))
        elif op < 0.85:
            toks[i] = rng.choice(TOKENS)
        else:
            toks = toks[:i]
    return "".join(toks)


VS_IMPORTS = """From Coq Require Import NArith List Bool. Import ListNotations.
From WV Require Import C22.VScript.
Open Scope N_scope.
Definition em (m : matcher) : N * list N := match m with MExact t => (0, t) | MEscaped t => (1, t) | MStar t => (2, t) | MNonStar t => (3, t) | MAll => (4, []) end.
Definition ep (p : pm) : N * list (N * list N) := match p with Single m => (0, [em m]) | Multiple l => (1, map em l) | Cxx l => (2, map em l) end.
Definition eb (b : body) := (map ep (globals b), map ep (locals b)).
Definition ev (v : version) := (vname v, match vparent v with Some k => N.of_nat (S k) | None => 0 end, eb (vbody v)).
Definition any (_ : list N) := true.
Definition vs (input : list N) :=
  match parse_version_script any input with
  | Ok (Simple b) => (0, [([], 0, eb b)])
  | Ok (Versions l) => (1, map ev l)
  | Err => (2, [])
  | Fuel => (3, [])
  end.
Definition el (input : list N) :=
  match parse_export_list any input with
  | Ok l => (0, map ep l)
  | Err => (2, [])
  | Fuel => (3, [])
  end.
"""


def _hx(t):
    return "-" if not t else bytes(t).hex()


def _rules(tag, pms):
    """the hook's rendering of a MatchRules built by pushing the parsed matchers in order"""
    out = []
    for kind, sel in (("general", (0, 1)), ("cxx", (2,))):
        exact, esc, star, non, allm = set(), set(), [], [], 0
        for k, ms in pms:
            if k in sel:
                for mk, t in ms:
                    if mk == 0:
                        exact.add(_hx(t))
                    elif mk == 1:
                        esc.add(_hx(t))
                    elif mk == 2:
                        star.append(_hx(t))
                    elif mk == 3:
                        non.append(_hx(t))
                    else:
                        allm = 1
        out.append(f"{tag} {kind} x={','.join(sorted(exact))} e={','.join(sorted(esc))} s={','.join(star)} n={','.join(non)} a={allm}")
    return out


def render_vs(v):
    tag, versions = v
    if tag >= 2:
        return "E" if tag == 2 else "FUEL"
    lines = []
    if tag == 0:
        (name, parent, (g, l)) = versions[0]
        rust = any(k == 0 and ms[0][0] == 4 for k, ms in l) and all(k == 0 and ms[0][0] == 0 for k, ms in g)
        if rust:
            return ("R " + " ".join(_hx(ms[0][1]) for k, ms in g)).rstrip()
        versions = [([], 0, (g, l))]
    else:
        versions = [([], 0, ([], []))] + list(versions)
    for name, parent, (g, l) in versions:
        lines.append(f"v {_hx(name)} {'-' if parent == 0 else parent - 1}")
        lines += _rules("g", g) + _rules("l", l)
    return "|".join(lines)


def render_el(v):
    tag, pms = v
    if tag >= 2:
        return "E" if tag == 2 else "FUEL"
    return "|".join(_rules("x", pms))


VS_WORDS = ["foo", "bar", "ns::f", "_Z3fooi", "a", "", "x y", "V1", "V2", "VER_1", "b*", "*", "?x", "a\\*b", "\"q\"", "\"a b\"", "\"", "*c*", "[ab]c", "[^a]b"]
VS_PUNCT = ["{", "}", ";", "};", "} ;", "global:", "local:", "extern \"C\" {", "extern \"C++\" {", "extern \"D\" {", "extern ", " ", "\n", "\t", "# c\n", "#", "/* c */", "/*", "*/", "/*/", ":", "(", ")"]


def gen_vs(rng, export_list=False):
    """mostly well-formed version scripts / export lists with noise; every syntactic form of the grammar"""
    def pats(n, allow_extern=True):
        out = []
        for _ in range(n):
            r = rng.random()
            if allow_extern and r < 0.2:
                inner = pats(rng.randrange(0, 4), False)
                last = rng.random() < 0.5 and inner
                body = " ".join(inner)
                if last and body.endswith(";"):
                    body = body[:-1]             # the last symbol of an extern block may omit its semicolon
                lang = rng.choice(['"C"', '"C++"', '"C++"', '"D"'])
                sep = rng.choice([" ", "", "\n"])
                out.append("extern " + lang + sep + "{ " + body + " };")
            else:
                out.append(rng.choice(VS_WORDS) + rng.choice(["", "", " ", "\n"]) + ";")
        return out

    def section():
        parts = []
        for _ in range(rng.randrange(0, 4)):
            parts.append(rng.choice(["global:", "local:", ""]))
            parts += pats(rng.randrange(0, 4))
        return "{ " + " ".join(parts) + rng.choice([" ", "", " /* e */ ", "\n# x\n"]) + "}"
    if export_list:
        text = rng.choice(["", " ", "# l\n"]) + "{ " + " ".join(pats(rng.randrange(0, 6))) + " };" + rng.choice(["", "\n", " x"] if rng.random() < 0.2 else ["", "\n"])
    elif rng.random() < 0.4:
        text = rng.choice(["", "\n", "/* h */ "]) + section() + rng.choice([";", ";\n", " ;", "", "; x"] if rng.random() < 0.3 else [";", ";\n"])
    else:
        names = []
        text = ""
        for i in range(rng.randrange(1, 5)):
            nm = rng.choice(["V1", "V2", "VER_1", "LIB_2.0", "a"]) + (str(i) if rng.random() < 0.7 else "")
            parent = rng.choice(names + ["", "", "NOPE", " " + (names[0] if names else "V")]) if rng.random() < 0.6 else ""
            text += nm + rng.choice([" ", "", "\n"]) + section() + rng.choice(["", " "]) + parent + ";" + rng.choice(["", "\n", " "])
            names.append(nm)
    # noise
    if rng.random() < 0.45:
        toks = re.findall(r"\s+|[A-Za-z_.:0-9]+|.", text)
        for _ in range(rng.choice([1, 1, 2, 3])):
            if not toks:
                break
            i = rng.randrange(len(toks))
            op = rng.random()
            if op < 0.3:
                del toks[i]
            elif op < 0.7:
                toks.insert(i, rng.choice(VS_PUNCT + VS_WORDS))
            elif op < 0.85:
                toks[i] = rng.choice(VS_PUNCT + VS_WORDS)
            else:
                toks = toks[:i]
        text = "".join(toks)
    return text.encode("utf-8", "surrogateescape")


def amplified(rng, tier):
    """inputs in which one construct is repeated or nested far beyond what any real input does: the recursion depth and
    the running time of a recursive-descent parser are decided by such inputs, and byte-level mutation never builds them"""
    sizes = [40, 150, 3000] if tier == "quick" else [33, 40, 100, 150, 700, 3000, 20000, 200000]
    jobs = []
    for n in sizes:
        for nm, text in (
                ("parens", "ASSERT(" + "(" * n + "1" + ")" * n + ', "x")'),
                ("unary", "ASSERT(" + "~" * n + '1 | 1, "x")'),
                ("unary-parens", "ASSERT(" + "(-" * n + "1" + ")" * n + ', "x")'),
                ("chain", "ASSERT(" + "1+" * n + '1, "x")'),
                ("chain-mixed", "ASSERT(" + "1*2+3|4&5^" * (n // 5) + '1, "x")'),
                ("function", "ASSERT(" + "ALIGN(" * n + "1" + ")" * n + ', "x")'),
                ("sections-address", "SECTIONS { .text " + "(" * n + "0x400000" + ")" * n + " : { *(.text) } }"),
                ("memory", "MEMORY { ram : ORIGIN = " + "(" * n + "1" + ")" * n + ", LENGTH = 1M }"),
                ("comment", "/*" * n + "*/" * n + " ENTRY(_start)"),
                ("keep", "SECTIONS { .text : { " + "KEEP(" * n + "*(.text)" + ")" * n + " } }"),
                ("braces", "SECTIONS { " + ".a : { " * n + "}" * n + " }")):
            jobs.append(("script", "s.ld", text.encode(), None))
        jobs.append(("input-script", "g.ld", ("GROUP(" + "AS_NEEDED(" * n + "b.o" + ")" * n + ")").encode(), None))
        jobs.append(("input-script", "g.ld", ("INPUT(" + "GROUP(" * n + "b.o" + ")" * n + ")").encode(), None))
        for nm, text in (
                ("extern-nest", "{ global: " + 'extern "C" { ' * n + "foo; " + "}; " * n + "};"),
                ("extern-nest-cxx", "V1 { global: " + 'extern "C++" { ' * n + "foo; " + "}; " * n + "local: *; };"),
                ("extern-big", '{ global: extern "C++" { ' + " ".join(f"ns::f{i}*;" for i in range(n)) + " }; local: *; };"),
                ("extern-unclosed", '{ global: extern "C" { ' + " ".join(f"f{i};" for i in range(n))),
                ("many-versions", "V0 { global: foo; };\n" + "".join(f"V{i + 1} {{ global: f{i}; }} V{i};\n" for i in range(min(n, 20000)))),
                ("brace-nest", "{" * n + " foo; " + "};" * n)):
            jobs.append(("version-script", "v.map", text.encode(), None))
        jobs.append(("export-list", "e.list", ("{ " + 'extern "C" { ' * n + "foo; " + "}; " * n + "};").encode(), None))
        jobs.append(("export-list", "e.list", ("{ " + " ".join(f"f{i};" for i in range(n)) + " };").encode(), None))
        jobs.append(("response-file", "args.rsp", (" ".join(["--as-needed"] * n)).encode(), None))
        jobs.append(("response-file", "args.rsp", ("'" + "x" * n + "' " + '"' + "\\\\" * n + '"').encode(), None))
    jobs.append(("response-file", "args.rsp", b"@args.rsp", None))                       # includes itself
    jobs.append(("response-file", "args.rsp", b"b.o @args.rsp @args.rsp", None))
    jobs.append(("response-file", "args.rsp", b"@./args.rsp\n", None))
    return jobs


def run(chk, replay=None):
    coq = coq_build(["C22"], ["C22/Props.v", "C22/PropsScripts.v", "C22/PropsRsp.v"])
    chk.add_coq(coq)
    okw, outw, wild = wild_build()
    okh, outh, wvh = harness_build()
    if not okw or not okh:
        chk.tie_break("wild / harness do not build", (outw + outh)[-2000:])
        return chk.finish(TRUSTED)
    rng = chk.rng
    known = {k["id"]: k for k in chk.known}
    stats = {"tokenizer_cases": 0, "tokenizer_errors": {}, "archive_prefixes": 0, "archive_mutations": 0, "runs": 0, "by_input": {}, "outcomes": {"linked": 0, "diagnostic": 0}, "model_mismatch": 0}
    # ---- tokenizer: model vs implementation
    ncase = 300 if chk.tier == "quick" else 3000
    texts = ['a "b c" d\\ e', '"', "a\\", '"a"b', 'a"', '""', "'' x", 'a "b\'c" \'d"e\'', " a b ", ""] + [gen_tok(rng) for _ in range(ncase)]
    if replay and "text" in json.load(open(replay))["replay"]:
        texts = [json.load(open(replay))["replay"]["text"]]
    impl = run_impl(wvh, "c22", ["tok " + t.encode().hex() for t in texts])
    items = ["arguments_from_string isws [" + "; ".join(str(ord(c)) for c in t) + "]" for t in texts]
    imports = ("From Coq Require Import NArith List Bool. Import ListNotations.\nFrom WV Require Import C22.Model.\nOpen Scope N_scope.\n"
               f"Definition isws (c : N) : bool := existsb (N.eqb c) [{'; '.join(map(str, WS))}].\n"
               "Definition show (r : res) := match r with Ok a => (0, a) | Err MissingClosingQuote => (1, []) | Err ExpectedWhitespace => (2, []) | Err MissingOpeningQuote => (3, []) | Err InvalidEscape => (4, []) end.\n")
    per = (len(items) + NCPU - 1) // NCPU
    bodies = ["Eval vm_compute in map show [\n" + ";\n".join(items[j * per:(j + 1) * per]) + "].\n" for j in range(NCPU) if items[j * per:(j + 1) * per]]
    flat, okm = [], True
    for rc_, o in coq_eval_sharded("c22", imports, bodies, timeout=600):
        if rc_ != 0:
            chk.tie_break("model evaluation failed (coqc)", o[-1500:])
            okm = False
            continue
        flat += parse_coq_value(o)
    names = {1: "MissingClosingQuote", 2: "ExpectedWhitespace", 3: "MissingOpeningQuote", 4: "InvalidEscape"}
    if okm and len(flat) == len(texts):
        for t, im, mv in zip(texts, impl, flat):
            stats["tokenizer_cases"] += 1
            code, margs = mv[0], mv[1]
            if im == "PANIC":
                chk.violation(f"arguments_from_string panics on {t!r}", {"text": t})
                continue
            if im.startswith("OK"):
                got = (0, [bytes.fromhex(x).decode() for x in im[3:].split(",")] if im[3:] else [])
            else:
                kind = next((v for k, v in ERRS.items() if k in im), im)
                got = (kind, [])
                stats["tokenizer_errors"][kind] = stats["tokenizer_errors"].get(kind, 0) + 1
            want = (0, ["".join(chr(c) for c in a) for a in margs]) if code == 0 else (names[code], [])
            if got != want:
                stats["model_mismatch"] += 1
                chk.tie_break(f"correspondence C22.arguments_from_string on {t!r}: implementation {got}, model {want}", {"text": t})
    elif okm:
        chk.tie_break("model evaluation: wrong number of answers", {"items": len(texts), "answers": len(flat)})
    # ---- version-script / export-list parsers: model vs implementation
    nvs = 250 if chk.tier == "quick" else 2500
    fixed = [b"{ global: foo; local: *; };", b"V1 { global: a; };\nV2 { b; } V1;", b"{ extern \"C\" { a; b }; };", b"{ extern \"C\" { a; b", b"{ extern \"C\" {", b"", b"{", b"{ };", b"{};x",
             b"V1 { } V1;", b"V1 {};V1 {} V1;", b"#\n{ a; };", b"#", b"/*/{ a; };", b"/**/{ a; };", b"/* {a;};", b"{ a\\*b; \"x\"; \" ; * ; ?a; };", b"{ extern \"C\" { extern \"C++\" { a; }; }; };",
             b"{ global: a }; b; };", b"{ local: * ; global: a; };", b"V { global: a; } ;", b"V { global: a; }  V;", b"{ a; } ;"]
    vtexts = fixed + [gen_vs(rng) for _ in range(nvs)]
    etexts = [b"{ foo; };", b"{ a; b }", b"{ a; };x", b"{};", b"{ extern \"C++\" { n::*; q }; };", b"", b"{ a"] + [gen_vs(rng, export_list=True) for _ in range(nvs // 2)]
    if replay and "vscript_hex" in json.load(open(replay))["replay"]:
        vtexts, etexts = [bytes.fromhex(json.load(open(replay))["replay"]["vscript_hex"])], []
    if replay and "elist_hex" in json.load(open(replay))["replay"]:
        vtexts, etexts = [], [bytes.fromhex(json.load(open(replay))["replay"]["elist_hex"])]
    vimpl = run_impl(wvh, "c22", ["vs " + t.hex() for t in vtexts] + ["el " + t.hex() for t in etexts])
    vitems = ["vs [" + "; ".join(str(b) for b in t) + "]" for t in vtexts]
    eitems = ["el [" + "; ".join(str(b) for b in t) + "]" for t in etexts]
    per = (len(vitems) + NCPU - 1) // NCPU or 1
    vbodies = ["Eval vm_compute in [\n" + ";\n".join(vitems[j * per:(j + 1) * per]) + "].\n" for j in range(NCPU) if vitems[j * per:(j + 1) * per]]
    per = (len(eitems) + NCPU - 1) // NCPU or 1
    ebodies = ["Eval vm_compute in [\n" + ";\n".join(eitems[j * per:(j + 1) * per]) + "].\n" for j in range(NCPU) if eitems[j * per:(j + 1) * per]]
    vflat, eflat, okv = [], [], True
    for bodies_, dst in ((vbodies, vflat), (ebodies, eflat)):
        for rc_, o in coq_eval_sharded("c22vs", VS_IMPORTS, bodies_, timeout=900):
            if rc_ != 0:
                chk.tie_break("model evaluation failed (coqc, version-script parser)", o[-1500:])
                okv = False
                continue
            dst += parse_coq_value(o)
    stats["vscript"] = {"cases": 0, "accepted": 0, "rejected": 0, "glob_dependent": 0, "versions": 0, "rust_style": 0, "extern_blocks": 0, "mismatch": 0}
    if okv and len(vflat) == len(vtexts) and len(eflat) == len(etexts):
        for kind, texts_, flat_, impls, rend in (("version script", vtexts, vflat, vimpl[:len(vtexts)], render_vs), ("export list", etexts, eflat, vimpl[len(vtexts):], render_el)):
            for t, mv, im in zip(texts_, flat_, impls):
                st = stats["vscript"]
                st["cases"] += 1
                key = "vscript_hex" if kind == "version script" else "elist_hex"
                if im == "PANIC":
                    chk.violation(f"the {kind} parser panics on {t[:80]!r}", {key: t.hex()})
                    continue
                want = rend(mv)
                if want == "FUEL":
                    chk.tie_break(f"C22.VScript: the model runs out of fuel on a {kind} (theorem parse_version_script_terminates says it cannot)", {key: t.hex()})
                    continue
                if im == "E glob":
                    st["glob_dependent"] += 1
                    continue
                got = "E" if im.startswith("E ") else im
                st["accepted" if got != "E" else "rejected"] += 1
                st["versions"] += got.count("v ") if got != "E" else 0
                st["rust_style"] += int(got.startswith("R"))
                st["extern_blocks"] += int(b"extern" in t and got != "E")
                if got != want:
                    st["mismatch"] += 1
                    stats["model_mismatch"] += 1
                    chk.tie_break(f"correspondence C22.VScript ({kind} parser) on {t[:120]!r}: implementation {got[:300]}, model {want[:300]}", {key: t.hex()})
    elif okv:
        chk.tie_break("model evaluation: wrong number of answers (version-script parser)", {"items": len(vtexts) + len(etexts), "answers": len(vflat) + len(eflat)})
    # ---- the round-trip theorem's printer against the real parser: structured scripts are printed BY THE MODEL
    #      (print_script, evaluated in Coq) and parsed by wild; the result must be the structure the theorem states
    RT_IMPORTS = VS_IMPORTS + ("From WV Require Import C22.VRound.\n"
                               "Definition SV (n : list N) (p : N) (g l : list (list N)) : sversion := {| sname := n; sparent := match p with 0 => None | _ => Some (N.to_nat (p - 1)) end; sglob := g; sloc := l |}.\n"
                               "Definition rt (vs : list sversion) := (print_script vs, (1, map ev (map to_version vs))).\n")
    NAME_B = "abcxyzABZ019_."
    rts = []
    for _ in range(40 if chk.tier == "quick" else 400):
        nv = rng.randrange(0, 5)
        names, vs_ = [], []
        for i in range(nv):
            while True:
                nm = "".join(rng.choice(NAME_B) for _ in range(rng.randrange(1, 7)))
                if nm not in names:
                    break

            def pat():
                while True:
                    t_ = "".join(rng.choice(NAME_B + "**??") for _ in range(rng.randrange(1, 7)))
                    if "**" not in t_:
                        return t_
            par = rng.randrange(1, i + 1) if i and rng.random() < 0.6 else 0
            vs_.append((nm, par, [pat() for _ in range(rng.randrange(0, 4))], [pat() for _ in range(rng.randrange(0, 3))]))
            names.append(nm)
        rts.append(vs_)

    def cl(t_):
        return "[" + "; ".join(str(b) for b in t_.encode()) + "]"
    rt_items = ["rt [" + "; ".join(f"SV {cl(n)} {p_} [{'; '.join(cl(x) for x in g)}] [{'; '.join(cl(x) for x in l)}]" for n, p_, g, l in vs_) + "]" for vs_ in rts]
    rc_, o = coq_eval("c22rt", "Eval vm_compute in [\n" + ";\n".join(rt_items) + "].\n", RT_IMPORTS, timeout=600)
    stats["round_trip"] = {"scripts": 0, "versions": 0, "patterns": 0, "mismatch": 0}
    if rc_ != 0:
        chk.tie_break("model evaluation failed (coqc, print_script)", o[-1500:])
    else:
        rtres = parse_coq_value(o)
        texts_rt = [bytes(t_) for t_, _ in rtres]
        impl_rt = run_impl(wvh, "c22", ["vs " + t_.hex() for t_ in texts_rt])
        for vs_, (t_, want_v), im in zip(rts, rtres, impl_rt):
            st = stats["round_trip"]
            st["scripts"] += 1
            st["versions"] += len(vs_)
            st["patterns"] += sum(len(g) + len(l) for _, _, g, l in vs_)
            want = render_vs(want_v)
            got = "E" if im.startswith("E ") else im
            if got != want:
                st["mismatch"] += 1
                stats["model_mismatch"] += 1
                chk.tie_break(f"correspondence C22.VRound.print_script: wild parses the printed script {bytes(t_)[:160]!r} as {got[:300]}, the round-trip theorem says {want[:300]}", {"vscript_hex": bytes(t_).hex()})
    # ---- @file expansion: model vs implementation on graphs of argument files (cycles, chains around the depth limit)
    RSP_IMPORTS = ("From Coq Require Import NArith List Bool. Import ListNotations.\nFrom WV Require Import C22.RspFiles.\nOpen Scope N_scope.\n"
                   "Fixpoint of_list (l : list (N * list arg)) : fsys := match l with [] => fun _ => None | (k, v) :: r => fun f => if f =? k then Some v else of_list r f end.\n"
                   "Definition show (r : xres) := match r with XOk l => (0, l) | XTooDeep => (1, []) | XMissing => (2, []) end.\n")
    K = 4
    graphs = []
    for ln in (1, 2, 99, 100, 101, 102, 150):                      # chains: file i names file i+1, the last one defines everything
        files = {i: [("at", i + 1)] for i in range(1, ln)}
        files[ln] = [("plain", n) for n in range(1, K + 1)]
        graphs.append((files, [("at", 1)]))
    graphs.append(({1: [("at", 1)]}, [("at", 1)]))
    graphs.append(({1: [("plain", 1), ("at", 2)], 2: [("plain", 2), ("at", 1)]}, [("at", 1), ("plain", 3), ("plain", 4)]))
    graphs.append(({1: [("plain", 1), ("plain", 2)]}, [("at", 1), ("at", 1), ("plain", 3), ("plain", 4)]))
    for _ in range(40 if chk.tier == "quick" else 400):
        nf = rng.randrange(1, 6)
        files = {}
        for i in range(1, nf + 1):
            items = []
            for _ in range(rng.randrange(0, 4)):
                if rng.random() < 0.5:
                    items.append(("plain", rng.randrange(1, K + 1)))
                else:
                    r_ = rng.random()
                    if r_ < 0.8 and i < nf:
                        items.append(("at", rng.randrange(i + 1, nf + 1)))      # forward: acyclic
                    elif r_ < 0.9:
                        items.append(("at", rng.randrange(1, nf + 1)))          # any file: cycles
                    elif r_ < 0.95:
                        items.append(("at", 77))                                # a file that does not exist
                    else:
                        items.append(("plain", rng.randrange(1, K + 1)))
            files[i] = items
        top = [("at", rng.randrange(1, nf + 1)) for _ in range(rng.randrange(1, 3))] + [("plain", n) for n in range(1, K + 1) if rng.random() < 0.75]
        rng.shuffle(top)
        graphs.append((files, top))

    def coq_args(items):
        return "[" + "; ".join(("Plain %d" % v) if k == "plain" else ("At %d" % v) for k, v in items) + "]"
    ritems = ["show (expand_args (of_list [" + "; ".join(f"({i}, {coq_args(v)})" for i, v in sorted(fl.items())) + "]) " + coq_args(top) + ")" for fl, top in graphs]
    rc_, o = coq_eval("c22rsp", "Eval vm_compute in [\n" + ";\n".join(ritems) + "].\n", RSP_IMPORTS, timeout=600)
    stats["response_file_graphs"] = {"cases": 0, "ok": 0, "too_deep": 0, "missing": 0, "incomplete": 0, "mismatch": 0}
    if rc_ != 0:
        chk.tie_break("model evaluation failed (coqc, @file expansion)", o[-1500:])
    else:
        rres = parse_coq_value(o)
        dg = tempfile.mkdtemp(prefix="c22r")
        try:
            open(f"{dg}/m.s", "w").write(".globl _start\n_start:\n" + "".join(f" movabs $s{n}, %rax\n" for n in range(1, K + 1)) + " ret\n")
            sh(f"cd {dg} && as --64 m.s -o m.o", timeout=60)
            for gi, ((fl, top), mv) in enumerate(zip(graphs, rres)):
                w = f"{dg}/g{gi}"
                os.makedirs(w)

                def txt(items):
                    return " ".join((f"--defsym=s{v}={v}" if k == "plain" else f"@r{v}.rsp") for k, v in items)
                for i, items in fl.items():
                    open(f"{w}/r{i}.rsp", "w").write(txt(items) + "\n")
                try:
                    pr = subprocess.run([wild, "../m.o", "-o", "out"] + txt(top).split(), cwd=w, stdout=subprocess.PIPE, stderr=subprocess.STDOUT, timeout=60)
                    rcw, outw_ = pr.returncode, pr.stdout.decode("utf-8", "replace")
                except subprocess.TimeoutExpired:
                    rcw, outw_ = "timeout", ""
                shutil.rmtree(w, ignore_errors=True)
                st = stats["response_file_graphs"]
                st["cases"] += 1
                rep = {"rsp_graph": {"files": {str(k): v for k, v in fl.items()}, "top": top}}
                code, lst_ = mv
                if code == 0:
                    want = "ok" if set(lst_) >= set(range(1, K + 1)) else "undefined"
                else:
                    want = "too-deep" if code == 1 else "missing"
                st[{"ok": "ok", "undefined": "incomplete", "too-deep": "too_deep", "missing": "missing"}[want]] += 1
                if rcw == "timeout" or "overflowed its stack" in outw_ or "panicked at" in outw_ or (isinstance(rcw, int) and (rcw < 0 or rcw in (101, 134, 139))):
                    chk.violation(f"wild crashes or hangs on a graph of argument files ({str(rcw)}: {outw_.strip()[-160:]})", rep)
                    continue
                got = ("ok" if rcw == 0 else "too-deep" if "nested too deeply" in outw_ else "missing" if "Failed to read arguments from file" in outw_
                       else "undefined" if "ndefined symbol" in outw_ else "other: " + outw_.strip()[-120:])
                if got != want:
                    st["mismatch"] += 1
                    stats["model_mismatch"] += 1
                    chk.tie_break(f"correspondence C22.RspFiles.expand_args: wild gives {got!r}, the model {want!r}", rep)
        finally:
            shutil.rmtree(dg, ignore_errors=True)
    # ---- the real inputs
    d = tempfile.mkdtemp(prefix="c22")
    try:
        open(f"{d}/a.s", "w").write(".globl _start, foo, bar\n_start: call foo\n mov bar@GOTPCREL(%rip), %rax\n lea msg(%rip), %rdi\n ret\n.section .rodata.str1.1,\"aMS\",@progbits,1\nmsg: .string \"hi\"\n.data\nbar: .quad foo\n"
                                  ".section .tdata,\"awT\"\ntv: .long 1\n.section .init_array,\"aw\"\n .quad foo\n")
        open(f"{d}/b.s", "w").write(".globl foo\n.type foo,@function\nfoo: ret\n.section .eh_frame,\"a\",@unwind\n .long 0\n")
        open(f"{d}/s.ld", "w").write(SCRIPT)
        open(f"{d}/v.map", "w").write(VSCRIPT)
        open(f"{d}/e.list", "w").write(ELIST)
        rc, out = sh(f"cd {d} && as --64 a.s -o a.o && as --64 b.s -o b.o && ar rc libb.a b.o a.o && ar rcT libt.a b.o && ld -shared b.o -o libb.so", timeout=60)
        if rc:
            chk.tie_break("cannot build the seed inputs", out[-300:])
            return chk.finish(TRUSTED)
        seeds_bin = {"object": "a.o", "object2": "b.o", "archive": "libb.a", "thin": "libt.a", "shared": "libb.so"}
        orig = {k: open(f"{d}/{v}", "rb").read() for k, v in seeds_bin.items()}
        # archive iterator, directly
        ar = orig["archive"]
        lines = ["ar " + ar[:n].hex() for n in range(0, len(ar), 7 if chk.tier == "quick" else 1)]
        heads = [i for i in range(8, len(ar) - 60) if ar[i + 58:i + 60] == b"`\n"]
        for _ in range(200 if chk.tier == "quick" else 2000):
            lines.append("ar " + mutate_bytes(rng, ar, [h + o for h in heads for o in (0, 16, 48, 58)]).hex())
        res = run_impl(wvh, "c22", lines)
        for ln, r_ in zip(lines, res):
            data = bytes.fromhex(ln[3:])
            stats["archive_prefixes" if len(stats) and ln in lines[:len(range(0, len(ar), 7 if chk.tier == "quick" else 1))] else "archive_mutations"] += 1
            if r_ == "PANIC":
                chk.violation(f"the archive iterator panics on a {len(data)}-byte malformed archive", {"archive_hex": ln[3:][:4000]})
                continue
            for ent in r_[3:].split(" ERR")[0].split(";"):
                if ent.strip():
                    nm, off, ln_ = ent.strip().split(":")
                    if int(off) + int(ln_) > len(data):
                        chk.violation(f"the archive iterator returns an entry [{off}+{ln_}] beyond the {len(data)} bytes of the archive", {"archive_hex": ln[3:][:4000]})
        # the binary
        jobs = []
        nmut = 25 if chk.tier == "quick" else 300
        for kind, fname in seeds_bin.items():
            hot = hot_offsets(orig[kind]) if kind != "archive" and kind != "thin" else [i for i in range(8, len(orig[kind]))][:200]
            for i in range(nmut):
                jobs.append((kind, fname, mutate_bytes(rng, orig[kind], hot), None))
        for kind, fname, text in (("script", "s.ld", SCRIPT), ("version-script", "v.map", VSCRIPT), ("export-list", "e.list", ELIST)):
            for i in range(nmut):
                jobs.append((kind, fname, mutate_text(rng, text).encode("utf-8", "surrogateescape"), None))
        for i in range(nmut):
            jobs.append(("response-file", "args.rsp", gen_tok(rng).encode(), None))
        for i in range(nmut * 2):
            argv = []
            for _ in range(rng.randrange(1, 6)):
                o = rng.choice(OPTIONS)
                if o.endswith("=") or o == "@":
                    argv.append(o + rng.choice(VALUES))
                else:
                    argv.append(o)
                    if rng.random() < 0.6:
                        argv.append(rng.choice(VALUES))
            jobs.append(("arguments", None, None, argv))
        amp = amplified(rng, chk.tier)
        stats["amplified"] = len(amp)
        jobs += amp
        if replay and "job" in json.load(open(replay))["replay"]:
            j = json.load(open(replay))["replay"]["job"]
            jobs = [(j["kind"], j["file"], bytes.fromhex(j["data_hex"]) if j.get("data_hex") is not None else None, j.get("argv"))]

        def one(ij, limit=20):
            i, (kind, fname, data, argv) = ij
            w = f"{d}/w{i}"
            os.makedirs(w)
            for f in ("a.o", "b.o", "libb.a", "libt.a", "libb.so", "s.ld", "v.map", "e.list"):
                if f == fname:
                    continue
                os.symlink(f"{d}/{f}", f"{w}/{f}")
            if fname:
                open(f"{w}/{fname}", "wb").write(data)
            base = {"object": ["a.o", "b.o"], "object2": ["a.o", "b.o"], "archive": ["a.o", "libb.a"], "thin": ["a.o", "libt.a"], "shared": ["a.o", "libb.so"],
                    "script": ["a.o", "b.o", "-T", "s.ld"], "input-script": ["a.o", "g.ld"], "version-script": ["a.o", "b.o", "-shared", "--version-script=v.map"], "export-list": ["a.o", "b.o", "-pie", "--dynamic-list=e.list"],
                    "response-file": ["a.o", "b.o", "@args.rsp"],
                    "arguments": ((argv or []) + ["a.o", "b.o"]) if (len(argv or []) % 2) else (["a.o"] + (argv or []) + ["b.o"])}[kind]
            try:
                p = subprocess.run([wild] + base + ["-o", "out"], cwd=w, stdout=subprocess.PIPE, stderr=subprocess.STDOUT, timeout=limit)
                rc, out = p.returncode, p.stdout.decode("utf-8", "replace")
            except subprocess.TimeoutExpired:
                rc, out = "timeout", ""
            shutil.rmtree(w, ignore_errors=True)
            return kind, fname, data, argv, rc, out
        with ThreadPoolExecutor(max_workers=8) as ex:
            results = list(ex.map(one, list(enumerate(jobs))))
        # a job that ran out of time is run again on its own with a generous limit: a loaded machine is not a hang
        for k_, r_ in enumerate(results):
            if r_[4] == "timeout":
                stats["reruns_after_timeout"] = stats.get("reruns_after_timeout", 0) + 1
                results[k_] = one((len(jobs) + k_, jobs[k_]), limit=180)
        for kind, fname, data, argv, rc, out in results:
            stats["runs"] += 1
            stats["by_input"][kind] = stats["by_input"].get(kind, 0) + 1
            rep = {"job": {"kind": kind, "file": fname, "data_hex": data.hex() if data is not None and len(data) < 20000 else None, "argv": argv}}
            if data is not None and len(data) >= 20000:
                rep["job"]["data_head"] = data[:200].decode("latin-1")
                rep["job"]["data_len"] = len(data)
            crash = None
            if rc == "timeout":
                crash = "does not terminate within 20 s"          # (and not within 180 s when run again alone)
            elif "memory allocation of" in out:
                m = re.search(r"memory allocation of (\d+) bytes failed", out)
                crash = f"aborts: memory allocation of {m.group(1) if m else '?'} bytes failed"
            elif "panicked at" in out or "RUST_BACKTRACE" in out:
                m = re.search(r"panicked at ([^\n]*)", out)
                crash = "panics: " + (m.group(1)[:160] if m else out.strip()[-160:])
            elif "has overflowed its stack" in out or "stack overflow" in out:
                crash = f"overflows its stack: {out.strip()[-120:]}"
            elif isinstance(rc, int) and (rc < 0 or rc in (134, 139, 101)):
                crash = f"is killed by a signal or aborts (status {rc}): {out.strip()[-160:]}"
            elif rc not in (0, 1, 255):
                crash = f"exits with the unexpected status {rc}: {out.strip()[-160:]}"
            elif rc != 0 and not out.strip():
                crash = f"exits {rc} without any message"
            if crash:
                hit = next((k["id"] for k in known.values() if re.search(k["match"], crash)), None)
                if hit:
                    chk.known_hit(hit, rep)
                else:
                    what = f"a mutated {kind}" if fname else f"the argument list {argv}"
                    chk.violation(f"wild {crash} (given {what})", rep)
            else:
                stats["outcomes"]["linked" if rc == 0 else "diagnostic"] += 1
    finally:
        shutil.rmtree(d, ignore_errors=True)
    chk.cov.update({
        "evaluations": stats["runs"] + stats["tokenizer_cases"] + stats["archive_mutations"] + stats["archive_prefixes"], "distinct_nontrivial": stats["outcomes"]["diagnostic"],
        "rule": "tokenizer: 10 fixed + N generated strings (35% random over a 15-symbol alphabet, 65% structured arguments); archive iterator: every 7th (thorough: every) prefix of a real archive + "
                "header-targeted mutations; binary: per input kind (two objects, archive, thin archive, shared object, linker script, version script, export list, response file) N mutations, plus 2N "
                "random argument lists from a dictionary of options and hostile values; plus amplified inputs (one construct nested or repeated 40..200000 times in scripts, version scripts, "
                "export lists and response files, self-including response files); 20 s limit",
        "stats": stats,
    })
    return chk.finish(TRUSTED)
