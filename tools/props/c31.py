"""C31 — symbol tables describe the final resolution.
Theorems: coq/C31/Props.v (for every symbol attribute combination and output configuration wild's export/import
decision equals the GNU rule; demoted symbols are never exported; .symtab has its locals first, sh_info = their count).
Tie T2 against the real binary and against GNU ld 2.40 (spec validation): generated programs whose symbols cover
binding x visibility x (object / archive / archive named by --exclude-libs) x version-script local x
--export-dynamic-symbol x referenced-by-a-shared-library x defined-by-a-shared-library, linked -shared and as PIE,
with and without --export-dynamic, --gc-sections, -s, --strip-debug.  On the real files: .dynsym exported and imported
names = the model's decision for the symbol's attributes = ld's .dynsym; .symtab: every retained global once, st_value
points at the symbol's marker bytes, size/type as in the input, binding/visibility as ld writes them, locals before
globals with sh_info at the boundary; no .symtab under -s."""
from wvlib import *
import tempfile, shutil, struct
import elfread

TRUSTED = [
    "Coq 8.16.1 kernel incl. vm_compute; axioms: none",
    "C31.Model.gnu_exported is a statement of GNU ld's rule; it is validated against ld 2.40 on every generated program (a disagreement is reported as a broken specification, not as a wild defect)",
    "symbol attributes fed to the model come from the construction of the program; `retained` is true for every symbol when --gc-sections is off (with it, wild is compared with ld directly)",
    "symbol versions (verdef/versym) are C32's subject; here only local: patterns of the version script matter",
]

VIS = ["default", "protected", "hidden", "internal"]
IMPORTS = """From Coq Require Import List Bool. Import ListNotations.
From WV Require Import C31.Model.
Definition V (n : nat) := match n with 0 => Default | 1 => Protected | 2 => Hidden | _ => Internal end.
Definition B (n : nat) := match n with 0 => Local | 1 => Global | _ => Weak end.
Definition b (n : nat) := Nat.ltb 0 n.
Definition S (d bi v r vl ex el dr dd rf : nat) := {| defined := b d; sbind := B bi; svis := V v; retained := b r; vs_local := b vl; excluded_lib := b ex; in_export_list := b el; dso_ref := b dr; dso_def := b dd; referenced := b rf |}.
Definition C (s e : nat) := {| shared := b s; export_dynamic := b e |}.
Definition dec (c : cfg) (s : sym) := (wild_exported c s, wild_imported c s).
"""


def gen_program(rng):
    nsym = rng.randrange(6, 16)
    syms = []
    # in some programs the shared library also refers to symbols that the link demotes (version-script local:, an
    # --exclude-libs archive): a reference from a library must not bring a demoted symbol back into .dynsym
    demoted_refs = rng.random() < 0.5
    for i in range(nsym):
        where = rng.choice(["obj", "obj", "arch", "exarch"])
        bind = rng.choice(["global", "global", "weak", "local"])
        vis = rng.choice(VIS) if bind != "local" else "default"
        s = {"name": f"sym{i}", "where": where, "bind": bind, "vis": vis, "kind": rng.choice(["func", "object", "object", "abs"]), "size": rng.choice([1, 4, 8, 24]),
             "vs_local": rng.random() < 0.2, "export_list": rng.random() < 0.2, "dso_ref": False, "referenced": rng.random() < 0.8}
        if s["kind"] == "abs":
            s["where"] = "obj"
        if bind != "local" and vis in ("default", "protected") and (demoted_refs or (s["where"] != "exarch" and not s["vs_local"])) and rng.random() < 0.3:
            s["dso_ref"] = True
        if s["where"] != "obj":
            s["referenced"] = True          # archive members are pulled in by a reference
        syms.append(s)
    imports = [{"name": f"imp{i}", "referenced": rng.random() < 0.7} for i in range(rng.randrange(1, 4))]
    return syms, imports


def write_sources(d, syms, imports):
    def body(s):
        lines = []
        if s["kind"] == "abs":
            if s["bind"] == "global":
                lines.append(f".globl {s['name']}")
            elif s["bind"] == "weak":
                lines.append(f".weak {s['name']}")
            if s["vis"] != "default":
                lines.append(f".{s['vis']} {s['name']}")
            lines.append(f"{s['name']} = {0x1000 + int(s['name'][3:]) * 16}")
            return lines
        sec = (".text." if s["kind"] == "func" else ".data.") + s["name"]
        lines.append(f'.section {sec},"{"ax" if s["kind"] == "func" else "aw"}",@progbits')
        if s["bind"] == "global":
            lines.append(f".globl {s['name']}")
        elif s["bind"] == "weak":
            lines.append(f".weak {s['name']}")
        if s["vis"] != "default":
            lines.append(f".{s['vis']} {s['name']}")
        lines.append(f".type {s['name']},@{'function' if s['kind'] == 'func' else 'object'}")
        lines.append(f"{s['name']}:")
        marker = (s["name"].encode() + b"#" * 32)[:s["size"]] if s["kind"] == "object" else None
        if s["kind"] == "func":
            lines.append(" .byte 0x90" * 1)
            lines += [" nop"] * (s["size"] - 1) if s["size"] > 1 else []
        else:
            lines.append(" .ascii \"" + marker.decode() + "\"")
        lines.append(f".size {s['name']}, {s['size']}")
        return lines
    per = {"obj": [], "arch": [], "exarch": []}
    for s in syms:
        per[s["where"]] += body(s)
    # locals must be referenced from their own file
    main = ['.section .text._start,"ax",@progbits', ".globl _start", ".type _start,@function", "_start:"]
    for s in syms:
        if s["where"] == "obj" and s["referenced"] and s["kind"] == "abs":
            main.append(f" mov ${s['name']}, %rax" if False else f" .quad 0" if False else " nop")
        elif s["where"] == "obj" and s["referenced"]:
            main.append(f" lea {s['name']}(%rip), %rax" if s["bind"] == "local" or s["vis"] != "default" else f" mov {s['name']}@GOTPCREL(%rip), %rax")
    open(f"{d}/obj.s", "w").write("\n".join(per["obj"] + main + [" call arch_anchor@PLT" if per["arch"] else "", " call exarch_anchor@PLT" if per["exarch"] else ""] +
                                              [f" mov {i['name']}@GOTPCREL(%rip), %rax" for i in imports if i["referenced"]] + [" ret", ""]))
    for w in ("arch", "exarch"):
        if per[w]:
            refs = [" nop" if s["kind"] == "abs" else f" lea {s['name']}(%rip), %rax" if s["vis"] != "default" or s["bind"] == "local" else f" mov {s['name']}@GOTPCREL(%rip), %rax" for s in syms if s["where"] == w]
            open(f"{d}/{w}.s", "w").write("\n".join(per[w] + ['.section .text.anchor,"ax",@progbits', f".globl {w}_anchor", f".type {w}_anchor,@function", f"{w}_anchor:"] + refs + [" ret", ""]))
    # the shared library: defines the imports, refers to the dso_ref symbols
    lib = ['.text', ".globl libfn", ".type libfn,@function", "libfn:"] + [f" mov {s['name']}@GOTPCREL(%rip), %rax" for s in syms if s["dso_ref"]] + [" ret", ".data"]
    for i in imports:
        lib += [f".globl {i['name']}", f".type {i['name']},@object", f".size {i['name']},8", f"{i['name']}: .quad 1"]
    open(f"{d}/need.s", "w").write("\n".join(lib) + "\n")
    cmds = ["as --64 obj.s -o obj.o", "as --64 need.s -o need.o", "ld -shared need.o -o libneed.so"]
    for w in ("arch", "exarch"):
        if per[w]:
            cmds += [f"as --64 {w}.s -o {w}.o", f"rm -f lib{w}.a", f"ar rc lib{w}.a {w}.o"]
    vs_local = [s["name"] for s in syms if s["vs_local"]]
    open(f"{d}/vs.map", "w").write("{ global: *; " + ("local: " + "; ".join(vs_local) + "; " if vs_local else "") + "};\n")
    rc, out = sh(f"cd {d} && " + " && ".join(cmds), timeout=120)
    return rc == 0, out, [f"lib{w}.a" for w in ("arch", "exarch") if per[w]]


def tables(path):
    e = elfread.Elf(path)
    dyn = e.symbols(".dynsym")
    st = e.symbols(".symtab") if e.section(".symtab") else None
    info = e.section(".symtab")["info"] if e.section(".symtab") else None
    return e, dyn, st, info


def run(chk, replay=None):
    coq = coq_build(["C31"], ["C31/Props.v"], timeout=2400)
    chk.add_coq(coq)
    okw, outw, wild = wild_build()
    if not okw:
        chk.tie_break("wild does not build", outw[-2000:])
        return chk.finish(TRUSTED)
    rng = chk.rng
    seeds = [rng.randrange(1 << 30) for _ in range(12 if chk.tier == "quick" else 120)]
    if replay:
        seeds = json.load(open(replay))["replay"]["seeds"]
    known = {k["id"] for k in chk.known}
    stats = {"programs": 0, "links": 0, "symbols_checked": 0, "exported": 0, "imports": 0, "ld_disagrees_with_model": 0, "ld_rejects": 0, "wild_rejects": 0, "symtab_entries": 0, "stripped": 0}
    items, expect = [], []
    d = tempfile.mkdtemp(prefix="c31")
    try:
        for seed in seeds:
            r = random.Random(seed)
            syms, imports = gen_program(r)
            for f in os.listdir(d):
                os.remove(f"{d}/{f}")
            ok, out, archives = write_sources(d, syms, imports)
            if not ok:
                chk.tie_break("cannot build a generated program", {"seeds": [seed], "msg": out[-300:]})
                continue
            stats["programs"] += 1
            for shared in (True, False):
                for expdyn in (False, True):
                    for variant in ("plain", "gc", "strip-all", "strip-debug"):
                        if variant != "plain" and r.random() < 0.6:
                            continue
                        args = ["obj.o"] + archives + ["libneed.so", "--version-script=vs.map"]
                        if "libexarch.a" in archives:
                            args.append("--exclude-libs=libexarch.a")
                        args += [f"--export-dynamic-symbol={s['name']}" for s in syms if s["export_list"]]
                        args += ["-shared"] if shared else ["-pie", "-dynamic-linker", "/lib64/ld-linux-x86-64.so.2"]
                        if expdyn:
                            args.append("--export-dynamic")
                        args += {"plain": ["--no-gc-sections"], "gc": ["--gc-sections"], "strip-all": ["-s", "--no-gc-sections"], "strip-debug": ["--strip-debug", "--no-gc-sections"]}[variant]
                        rep = {"seeds": [seed], "args": args}
                        rcw, outw_ = sh(f"cd {d} && rm -f w.out && timeout 60 {wild} {' '.join(args)} -o w.out", timeout=90)
                        rcl, outl = sh(f"cd {d} && rm -f l.out && timeout 60 ld {' '.join(args)} -o l.out", timeout=90)
                        stats["links"] += 1
                        if rcl != 0:
                            stats["ld_rejects"] += 1
                            continue
                        if rcw != 0:
                            stats["wild_rejects"] += 1
                            chk.violation(f"a program GNU ld links is rejected (seed {seed}, {' '.join(args[-4:])}): {outw_.strip()[-200:]}", rep)
                            continue
                        ew, dynw, stw, infow = tables(f"{d}/w.out")
                        el, dynl, stl, infol = tables(f"{d}/l.out")
                        mine = {s["name"] for s in syms} | {i["name"] for i in imports}
                        wexp = {s["name"] for s in dynw if s["shndx"] != 0 and s["name"] in mine}
                        wimp = {s["name"] for s in dynw if s["shndx"] == 0 and s["name"] in mine}
                        lexp = {s["name"] for s in dynl if s["shndx"] != 0 and s["name"] in mine}
                        limp = {s["name"] for s in dynl if s["shndx"] == 0 and s["name"] in mine}
                        bad = []
                        if wexp != lexp:
                            bad.append(f".dynsym exports differ from GNU ld: only wild {sorted(wexp - lexp)}, only ld {sorted(lexp - wexp)}")
                        if wimp != limp:
                            bad.append(f".dynsym imports differ from GNU ld: only wild {sorted(wimp - limp)}, only ld {sorted(limp - wimp)}")
                        names = [s["name"] for s in dynw]
                        if len(names) != len(set(names)):
                            bad.append("a name occurs twice in .dynsym")
                        # the model, when every symbol is retained
                        if variant != "gc":
                            for s in syms:
                                items.append(f"dec (C {int(shared)} {int(expdyn)}) (S 1 {['local', 'global', 'weak'].index(s['bind'])} {VIS.index(s['vis'])} 1 {int(s['vs_local'])} "
                                             f"{int(s['where'] == 'exarch')} {int(s['export_list'])} {int(s['dso_ref'])} 0 {int(s['referenced'])})")
                                expect.append((s["name"] in wexp, False, s["name"] in lexp, False, dict(rep, symbol=s)))
                            for i in imports:
                                items.append(f"dec (C {int(shared)} {int(expdyn)}) (S 0 1 0 1 0 0 0 0 1 {int(i['referenced'])})")
                                expect.append((False, i["name"] in wimp, False, i["name"] in limp, dict(rep, symbol=i)))
                        stats["exported"] += len(wexp)
                        stats["imports"] += len(wimp)
                        # .symtab
                        if variant == "strip-all":
                            stats["stripped"] += 1
                            if stw is not None:
                                bad.append(".symtab present under -s")
                        else:
                            if stw is None:
                                bad.append("no .symtab")
                            else:
                                stats["symtab_entries"] += len(stw)
                                first_global = next((k for k, s in enumerate(stw) if s["bind"] != 0), len(stw))
                                if infow != first_global or any(s["bind"] == 0 for s in stw[first_global:]):
                                    bad.append(f".symtab: sh_info {infow}, first non-local at {first_global}, locals after it: {any(s['bind'] == 0 for s in stw[first_global:])}")
                                lby = {}
                                for s in (stl or []):
                                    lby.setdefault(s["name"], []).append(s)
                                wby = {}
                                for s in stw:
                                    wby.setdefault(s["name"], []).append(s)
                                for s in syms:
                                    if s["bind"] == "local":
                                        continue            # the property speaks of global definitions
                                    stats["symbols_checked"] += 1
                                    we, le = wby.get(s["name"], []), lby.get(s["name"], [])
                                    if len(le) != 1:
                                        continue
                                    if len(we) == 0 and variant == "gc" and s["dso_ref"] and (s["vs_local"] or s["where"] == "exarch"):
                                        # GNU ld keeps whatever a shared library on the command line mentions; a DEMOTED symbol cannot be
                                        # bound from outside, so collecting it changes nothing the property speaks of
                                        stats["collected_demoted_dso_ref"] = stats.get("collected_demoted_dso_ref", 0) + 1
                                        continue
                                    if len(we) != 1:
                                        bad.append(f".symtab has {len(we)} entries for {s['name']}, GNU ld has one")
                                        continue
                                    w0, l0 = we[0], le[0]
                                    demoted = s["vis"] in ("hidden", "internal") or s["vs_local"] or s["where"] == "exarch"
                                    for fld in ("type", "size") if demoted else ("bind", "vis", "type", "size"):
                                        if w0[fld] != l0[fld]:
                                            bad.append(f".symtab {s['name']}: {fld} {w0[fld]}, GNU ld writes {l0[fld]}")
                                    if demoted and w0["bind"] != 0 and l0["bind"] == 0:
                                        if "C31-demoted-symbol-stays-global-in-symtab" in known:
                                            chk.known_hit("C31-demoted-symbol-stays-global-in-symtab", dict(rep, symbol=s))
                                        else:
                                            bad.append(f".symtab {s['name']}: a symbol demoted to local keeps binding {w0['bind']} (the gABI wants STB_LOCAL; GNU ld writes it)")
                                    if (w0["shndx"] == 0) != (l0["shndx"] == 0):
                                        bad.append(f".symtab {s['name']}: defined={w0['shndx'] != 0}, GNU ld defined={l0['shndx'] != 0}")
                                    if s["kind"] == "object" and w0["shndx"] not in (0, 0xfff1):
                                        got = ew.read_va(w0["value"], s["size"])
                                        want = (s["name"].encode() + b"#" * 32)[:s["size"]]
                                        if got != want:
                                            bad.append(f".symtab {s['name']}: st_value {w0['value']:#x} does not point at the symbol's bytes ({got!r} instead of {want!r})")
                        if bad:
                            chk.violation(f"symbol tables wrong (seed {seed}, {'-shared' if shared else '-pie'}{' --export-dynamic' if expdyn else ''} {variant}): " + "; ".join(bad[:3]), dict(rep, problems=bad))
    finally:
        shutil.rmtree(d, ignore_errors=True)
    if items:
        uniq = sorted(set(items))
        per = (len(uniq) + NCPU - 1) // NCPU
        bodies = ["Eval vm_compute in [\n" + ";\n".join(uniq[j * per:(j + 1) * per]) + "].\n" for j in range(NCPU) if uniq[j * per:(j + 1) * per]]
        flat, okm = [], True
        for rc_, o in coq_eval_sharded("c31", IMPORTS, bodies, timeout=600):
            if rc_ != 0:
                chk.tie_break("model evaluation failed (coqc)", o[-1500:])
                okm = False
                continue
            flat += parse_coq_value(o)
        if okm and len(flat) == len(uniq):
            table = dict(zip(uniq, flat))
            seen_spec, seen_impl = set(), set()
            for it, (wexp_, wimp_, lexp_, limp_, rep) in zip(items, expect):
                me, mi = bool(table[it][0]), bool(table[it][1])
                if (me, mi) != (lexp_, limp_) and it not in seen_spec:
                    seen_spec.add(it)
                    stats["ld_disagrees_with_model"] += 1
                    chk.tie_break(f"specification C31.gnu_exported: GNU ld {'exports' if lexp_ else 'imports' if limp_ else 'omits'} {rep['symbol']['name']}, the model says export={me} import={mi}", dict(rep, model_term=it))
                if (me, mi) != (wexp_, wimp_) and it not in seen_impl:
                    seen_impl.add(it)
                    chk.tie_break(f"correspondence C31.wild_exported: wild {'exports' if wexp_ else 'imports' if wimp_ else 'omits'} {rep['symbol']['name']}, the model says export={me} import={mi}", dict(rep, model_term=it))
        elif okm:
            chk.tie_break("model evaluation: wrong number of answers", {"items": len(uniq), "answers": len(flat)})
    chk.cov.update({
        "evaluations": stats["links"], "distinct_nontrivial": stats["symbols_checked"],
        "rule": "6-15 symbols per program over binding {global, weak, local} x visibility x {object, archive, --exclude-libs archive} x version-script local x --export-dynamic-symbol x "
                "referenced by a shared library; 1-3 imports; linked -shared and -pie x --export-dynamic x {plain, --gc-sections, -s, --strip-debug}; GNU ld 2.40 links the same command",
        "stats": stats,
    })
    return chk.finish(TRUSTED)
