"""C12 — relocation overflow is reported exactly when a value doesn't fit.
T1: Gen/RelocTables.v regenerated from the compiled tables; theorems in coq/C12/Props.v are finite row
checks lifted to all values.  T2: verify/write_to_buffer through the pub API on boundary values.
Spec validation (x86-64 data relocations): real ld and ld.lld; end-to-end: wild itself."""
from wvlib import *
import gen_tables
import tempfile

TRUSTED = [
    "Coq 8.16.1 kernel incl. vm_compute (no native_compute); axioms: none",
    "T1 translator = compile-and-dump (wvh dump evaluates the pub const fn tables of the freshly compiled crate); tools/gen_tables.py prints them as Coq",
    "spec table C12/Spec.v hand-written from psABI + bfd/lld overflow rules; x86-64 data rows validated against installed ld 2.40 / ld.lld 14 on boundary values; "
    "AArch64 bfd column cannot be validated here (no aarch64 GNU ld): spec is the intersection/union of plausible readings",
    "model C12/Model.v: verify + byte-size arm of write_to_buffer (bit-mask arm = C13)",
]
M64 = (1 << 64) - 1
I64MIN, I64MAX = -(1 << 63), (1 << 63) - 1

IMPORTS = """From Coq Require Import ZArith List Bool. Import ListNotations.
From WV Require Import C12.Types Gen.RelocTables C12.Model C12.Spec C12.Proofs.
Open Scope Z_scope.
"""


def s64(v):
    v &= M64
    return v - (1 << 64) if v >> 63 else v


def boundary(lo, hi, align, rng, n):
    vals = set()
    for b in (lo, hi):
        for d in range(-2 * max(align, 1), 2 * max(align, 1) + 1):
            vals.add(b + d)
    for p in (7, 8, 15, 16, 20, 27, 31, 32, 33, 47, 48, 63):
        for sgn in (1, -1):
            for d in (-1, 0, 1):
                vals.add(sgn * (1 << p) + d)
    vals.update([0, 1, -1, 2, 3, 4, 8, 16, I64MIN, I64MAX, I64MAX - 1, I64MIN + 1, 200, 40000])
    for _ in range(n):
        vals.add(s64(rng.getrandbits(rng.randrange(1, 65))))
        if hi - lo < (1 << 63):
            vals.add(rng.randrange(lo - (hi - lo), hi + (hi - lo) + 1))
    return sorted(v for v in vals if I64MIN <= v <= I64MAX)


def fits(row, v):
    sz = row["size"]
    nocheck = row["min"] == I64MIN and row["max"] == I64MAX
    if sz[0] == "B":
        n = sz[1]
        return n == 0 or (nocheck and n == 8) or -(1 << (8 * n - 1)) <= v < (1 << (8 * n))
    insn, lo, hi = sz[1], sz[2], sz[3]
    if nocheck:
        return True
    if insn == "A64.Movnz":
        return -(1 << hi) <= v < (1 << hi)
    return -(1 << (hi - 1)) <= v < (1 << hi)


def ld_probe(chk, wild, spec_rows, tier):
    """x86-64 absolute data relocations through real linkers: .byte/.short/.long/.quad sym and
    movq $sym (32S), sym supplied by --defsym.  Returns list of observations."""
    forms = {14: ".byte sym", 12: ".short sym", 10: ".long sym", 1: ".quad sym", 11: "movq $sym, %rax"}
    obs = []
    d = tempfile.mkdtemp(prefix="wv-c12-")
    try:
        for t, form in forms.items():
            s = [r for r in spec_rows if r[0] == 0 and r[1] == t][0]
            src = os.path.join(d, f"t{t}.s")
            open(src, "w").write(f".globl _start\n.text\n_start:\n nop\nplace:\n {form}\n")
            sh(f"as -o {d}/t{t}.o {src}", check=True)
            vals = sorted(set([s[2] - 1, s[2], s[2] + 1, s[3] - 2, s[3] - 1, s[3], s[5] - 1, s[5], s[6] - 1, s[6], 0, 1, -1, 200, 40000]))
            if tier == "thorough":
                vals = sorted(set(vals + [chk.rng.randrange(s[5] - 300, s[6] + 300) for _ in range(40)]))
            for v in vals:
                if not (I64MIN <= v <= I64MAX):
                    continue
                arg = f"--defsym=sym={v & M64:#x}"
                res = {}
                for name, cmd in (("ld", "ld"), ("lld", "ld.lld"), ("wild", wild)):
                    out = f"{d}/o_{name}"
                    rc, txt = sh(f"{cmd} -o {out} {d}/t{t}.o {arg}", timeout=60)
                    res[name] = rc
                    if name == "wild" and rc == 0:
                        # bytes at `place`: find via the file offset of .text + 1
                        res["bytes"] = read_place(out)
                obs.append((t, v, res))
    finally:
        shutil.rmtree(d, ignore_errors=True)
    return obs


def read_place(path):
    import struct
    b = open(path, "rb").read()
    shoff = struct.unpack_from("<Q", b, 0x28)[0]
    shentsize, shnum, shstrndx = struct.unpack_from("<HHH", b, 0x3A)
    def sh_(i):
        return struct.unpack_from("<IIQQQQIIQQ", b, shoff + i * shentsize)
    stroff = sh_(shstrndx)[4]
    for i in range(shnum):
        s = sh_(i)
        name = b[stroff + s[0]:b.index(b"\0", stroff + s[0])]
        if name == b".text":
            return b[s[4] + 1:s[4] + 9].hex()
    return None


def run(chk, replay=None):
    ok, out, binp = harness_build(False)
    if not ok:
        chk.tie_break("harness does not build against /repo", out[-3000:])
        return chk.finish(TRUSTED)
    rows, _ = gen_tables.regenerate(binp)          # T1
    coq = coq_build(["C12", "Gen"], ["C12/Props.v"])
    chk.add_coq(coq)
    # the spec, from its single source (Coq)
    rc, out = coq_eval(f"c12spec_{os.getpid()}", "Eval vm_compute in map (fun s => [s_arch s; s_type s; acc_lo s; acc_hi s; acc_align s; rej_lo s; rej_hi s]) spec.\n"
                       "Eval vm_compute in (map (fun s => [s_arch s; s_type s]) (filter (fun s => negb (spec_row_ok s)) spec),"
                       " map (fun r => [r_arch r; r_type r]) (filter (fun r => is_x86_or_a64 r && negb (trunc_ok r)) rows),"
                       " map (fun w => let '(a, t, n) := w in [a; t; n]) (filter (fun w => negb (width_ok w)) field_width_spec)).\n"
                       "Eval vm_compute in map (fun w => let '(a, t, n) := w in [a; t; n]) field_width_spec.\n", IMPORTS)
    if rc != 0:
        chk.tie_break("spec evaluation failed", out[-2000:])
        return chk.finish(TRUSTED)
    vals = parse_all_coq_values(out)
    spec_rows = [tuple(x) for x in vals[0]]
    bad_spec, bad_trunc, bad_width = vals[1]
    width_spec = {(w[0], w[1]): w[2] for w in vals[2]}
    for b in bad_spec:
        chk.tie_break(f"row check fails (accept_ok/reject_ok) for arch {b[0]} type {b[1]}: C12.Props.spec_rows_checked", b)
    for b in bad_trunc:
        chk.tie_break(f"row check fails (trunc_ok) for arch {b[0]} type {b[1]}: C12.Props.trunc_rows_checked", b)

    for b in bad_width:
        chk.tie_break(f"row check fails (width_ok) for arch {b[0]} type {b[1]}: psABI field is {b[2]} bytes: C12.Props.width_rows_checked", b)
    ARCH = gen_tables.ARCHES
    byrow = {(ARCH.index(r["arch"]), r["t"]): r for r in rows}
    known = {k["id"]: k for k in chk.known}

    def known_for(arch, t, which):
        for fid, k in known.items():
            if [arch, t] in k["match"].get("rows", []) and which in k["match"]["which"]:
                return fid
        return None

    # ---- cases: every x86-64 / AArch64 row x boundary values
    cases = []
    if replay:
        cases = [tuple(c) for c in json.load(open(replay))["replay"]["cases"]]
    else:
        cp = os.path.join(ROOT, "corpus", "C12.json")
        if os.path.exists(cp):
            cases += [tuple(c) for c in json.load(open(cp))]
        specby = {(s[0], s[1]): s for s in spec_rows}
        for (a, t), r in sorted(byrow.items()):
            if a > 1:
                continue
            s = specby.get((a, t))
            lo, hi = (r["min"], r["max"])
            vs = set(boundary(lo, hi, r["align"], chk.rng, 10 if chk.tier == "quick" else 200))
            if s:
                vs.update(boundary(s[2], s[3], s[4], chk.rng, 0))
                vs.update(boundary(s[5], s[6], 1, chk.rng, 0))
            for v in sorted(vs):
                cases.append((a, t, v))
    cases = list(dict.fromkeys(cases))
    lines = [f"v {ARCH[a]} {t} {v & M64} 0" for a, t, v in cases]
    res = run_impl(binp, "c12", lines)

    # ---- step 5: property predicate on the implementation
    specby = {(s[0], s[1]): s for s in spec_rows}
    nontrivial = 0
    hist = {"accept": 0, "reject": 0, "between": 0, "unspecified": 0}
    for (a, t, v), r in zip(cases, res):
        row = byrow.get((a, t))
        s = specby.get((a, t))
        okimpl = r.startswith("OK")
        if r == "PANIC":
            chk.violation(f"write_to_buffer panicked for arch {a} type {t} value {v}", {"cases": [[a, t, v]]})
            continue
        if s:
            acc = s[2] <= v < s[3] and v % s[4] == 0
            rej = v < s[5] or v >= s[6]
            hist["accept" if acc else "reject" if rej else "between"] += 1
            if acc or rej:
                nontrivial += 1
            if acc and not okimpl:
                fid = known_for(a, t, "accept")
                if fid:
                    chk.known_hit(fid, (a, t, v))
                else:
                    chk.violation(f"value {v} of {ARCH[a]} relocation {t} is accepted by GNU ld and lld (fits the field) but rejected by wild",
                                  {"cases": [[a, t, v]], "impl": r})
            if rej and okimpl:
                chk.violation(f"value {v} of {ARCH[a]} relocation {t} is rejected by GNU ld and lld but accepted by wild", {"cases": [[a, t, v]], "impl": r})
        else:
            hist["unspecified"] += 1
        if okimpl and row is not None:
            if not fits(row, v):
                fid = known_for(a, t, "trunc")
                if fid:
                    chk.known_hit(fid, (a, t, v))
                else:
                    chk.violation(f"value {v} of {ARCH[a]} relocation {t} accepted but does not fit the {row['size']} field: silently truncated",
                                  {"cases": [[a, t, v]], "impl": r})
            if row["size"][0] == "B" and row["size"][1] > 0:
                n = width_spec.get((a, t), row["size"][1])
                if n != row["size"][1]:
                    fid = known_for(a, t, "width")
                    if fid:
                        chk.known_hit(fid, (a, t, v))
                        continue
                w0 = int(r.split()[1])
                if (w0 & ((1 << (8 * n)) - 1)) != (v & M64 & ((1 << (8 * n)) - 1)) or (n < 8 and (w0 >> (8 * n)) != 0) or int(r.split()[2]) != 0:
                    chk.violation(f"bytes written for {ARCH[a]} relocation {t} value {v} are not the low {n} bytes of the value (or bytes beyond the field changed)",
                                  {"cases": [[a, t, v]], "impl": r})

    # ---- step 4: model vs implementation
    items = []
    for i, ((a, t, v), r) in enumerate(zip(cases, res)):
        row = byrow.get((a, t))
        if row is None or r == "PANIC":
            continue
        if r == "E":
            o = "None"
        elif row["size"][0] == "B":
            n = row["size"][1]
            o = f"(Some {int(r.split()[1]) & ((1 << (8 * n)) - 1) if n else 0})"
        else:
            o = "(Some (-1))"
        items.append(f"({i},{a},{t},{'(%d)' % v if v < 0 else v},{o})")
    pre = IMPORTS + """Definition oeq (a b : option Z) := match a, b with Some x, Some y => x =? y | None, None => true | _, _ => false end.
Definition model (a t v : Z) : option Z :=
  match lookup a t with
  | Some r => if verify r v then match r_size r with RBytes n => Some (if n =? 0 then 0 else field_bytes n v) | _ => Some (-1) end else None
  | None => Some (-2) end.
Definition bad (c : Z * Z * Z * Z * option Z) := let '(i, a, t, v, o) := c in negb (oeq (model a t v) o).
"""
    bodies = []
    for sidx in range(NCPU):
        part = items[sidx::NCPU]
        bodies.append("Definition cases : list (Z * Z * Z * Z * option Z) := [\n" + ";\n".join(part) +
                      "].\nEval vm_compute in map (fun c => let '(i, a, t, v, o) := c in i) (filter bad cases).\n")
    mism = []
    for rc, out in coq_eval_sharded("c12", pre, bodies):
        if rc != 0:
            chk.tie_break("model evaluation failed (coqc)", out[-2000:])
            continue
        mism += parse_coq_value(out)
    for i in mism[:20]:
        chk.tie_break("model/implementation disagree", {"case": list(cases[i]), "impl": res[i]})

    # ---- spec validation + end-to-end (x86-64 data relocations)
    okw, outw, wild = wild_build()
    e2e = {"links": 0, "spec_mismatch": 0, "wild_api_mismatch": 0}
    if not okw:
        chk.tie_break("wild does not build", outw[-2000:])
    else:
        for t, v, o in ld_probe(chk, wild, spec_rows, chk.tier):
            e2e["links"] += 3
            s = specby[(0, t)]
            acc = s[2] <= v < s[3] and v % s[4] == 0
            rej = v < s[5] or v >= s[6]
            if (acc and (o["ld"] != 0 or o["lld"] != 0)) or (rej and (o["ld"] == 0 or o["lld"] == 0)):
                e2e["spec_mismatch"] += 1
                chk.tie_break("spec validation: C12/Spec.v disagrees with installed ld/ld.lld", {"type": t, "value": v, "obs": o})
            # wild binary vs the API-level outcome for the same (type, value)
            api = run_impl(binp, "c12", [f"v x86_64 {t} {v & M64} 0"])[0]
            if (api.startswith("OK")) != (o["wild"] == 0):
                e2e["wild_api_mismatch"] += 1
                chk.tie_break("wild binary and write_to_buffer disagree", {"type": t, "value": v, "api": api, "obs": o})
            if acc and o["wild"] != 0 and not known_for(0, t, "accept"):
                chk.violation(f"end-to-end: wild rejects R_X86_64 type {t} value {v}; ld and lld link it", {"cases": [[0, t, v]], "obs": o})
            if rej and o["wild"] == 0:
                chk.violation(f"end-to-end: wild accepts R_X86_64 type {t} value {v}; ld and lld reject it", {"cases": [[0, t, v]], "obs": o})
    chk.cov.update({
        "evaluations": len(cases) + e2e["links"], "distinct_nontrivial": nontrivial,
        "rule": "every x86-64 and AArch64 table row x boundary values of the row's own range, of the spec's accept and reject intervals, powers of two +-1, i64 edges, seeded random; "
                "non-trivial = the spec decides the case (both-accept or both-reject)",
        "spec_rows": len(spec_rows), "table_rows": len(rows), "histogram": hist, "model_impl_mismatches": len(mism),
        "end_to_end": e2e, "failing_row_checks": {"spec": bad_spec, "trunc": bad_trunc, "width": bad_width},
        "samples": [{"arch": ARCH[c[0]], "r_type": c[1], "value": c[2], "impl": r} for c, r in list(zip(cases, res))[::max(1, len(cases) // 6)][:6]],
    })
    chk.assumptions = TRUSTED
    return chk.finish(TRUSTED)
