"""C16 — linker-script expressions evaluate as in GNU ld.
Theorems: coq/C16/Props.v.  Tie: T2 through libwild::verif_hooks::linker_script::{parse_expression, eval_const}
on generated expression strings; end-to-end ASSERT scripts through the wild binary; spec validation: real GNU ld."""
from wvlib import *
import tempfile

TRUSTED = [
    "Coq 8.16.1 kernel incl. vm_compute; axioms: none",
    "model C16/Model.v: token-level transcription of the ten parse_* levels + constant fragment of evaluate_expression; lexing is done by the generator (glue, exercised only through the tie)",
    "spec C16/Spec.v: GNU ld semantics over Z (ldexp.c, ldgram.y precedence table); validated against the installed GNU ld 2.40 with ASSERT scripts",
    "ALIGN/SIZEOF/ADDR/ORIGIN/LENGTH and symbols are outside the constant fragment",
]
W = 1 << 64
BIN = {"add": ("+", 8), "sub": ("-", 8), "mul": ("*", 9), "div": ("/", 9), "lt": ("<", 6), "gt": (">", 6), "le": ("<=", 6), "ge": (">=", 6),
       "eq": ("==", 5), "ne": ("!=", 5), "and": ("&", 4), "or": ("|", 2), "xor": ("^", 3), "shl": ("<<", 7), "shr": (">>", 7),
       "land": ("&&", 1), "lor": ("||", 0)}
COQBIN = {"add": "Add", "sub": "Sub", "mul": "Mul", "div": "Div", "lt": "Lt", "gt": "Gt", "le": "Le", "ge": "Ge", "eq": "Eq", "ne": "Ne",
          "and": "BAnd", "or": "BOr", "xor": "BXor", "shl": "Shl", "shr": "Shr", "land": "LAnd", "lor": "LOr"}
UN = {"lnot": "!", "not": "~", "neg": "-"}
COQUN = {"lnot": "LNot", "not": "BNot", "neg": "Neg"}

IMPORTS = """From Coq Require Import NArith ZArith List Bool. Import ListNotations.
From WV Require Import C16.Model C16.Spec.
Open Scope N_scope.
Definition oz (o : option Z) : Z := match o with Some z => z | None => (-1)%Z end.
Definition on (o : option N) : Z := match o with Some z => Z.of_N z | None => (-1)%Z end.
Definition oe (a b : option expr) : bool := match a, b with Some x, Some y => expr_eqb x y | None, None => true | _, _ => false end.
Definition SD := SIGNED_DIV.
(* case: idx, tokens, AST intended by C precedence, AST the implementation produced, value the implementation produced (-1 = error) *)
Definition check (c : N * list tok * expr * option expr * Z) :=
  let '(i, ts, ce, ie, iv) := c in
  let mp := parse wild_levels ts in
  let parse_ok := oe mp ie in
  let eval_ok := match ie with Some e => (on (eval SD e) =? iv)%Z | None => true end in
  let cparse_ok := oe (parse c_levels ts) (Some ce) in
  let spec_v := oz (gnu_eval ce) in
  (i, [b2n parse_ok; b2n eval_ok; b2n cparse_ok; b2n (oe mp (Some ce))], spec_v).
"""


def gen_ast(rng, depth, big):
    r = rng.random()
    if depth <= 0 or r < 0.22:
        c = rng.random()
        if c < 0.4:
            return ("num", rng.randrange(0, 10))
        if c < 0.7:
            return ("num", rng.choice([0, 1, 2, 3, 7, 8, 63, 64, 65, 255, 0x1000, 0xffffffff, 1 << 32, (1 << 63) - 1, 1 << 63, W - 1, W - 2, W - 8]))
        return ("num", rng.getrandbits(rng.randrange(1, 65)))
    if r < 0.80:
        op = rng.choice(list(BIN))
        return (op, gen_ast(rng, depth - 1, big), gen_ast(rng, depth - 1, big))
    if r < 0.92:
        return (rng.choice(list(UN)), gen_ast(rng, depth - 1, big))
    return (rng.choice(["min", "max"]), gen_ast(rng, depth - 1, big), gen_ast(rng, depth - 1, big))


def prec(e):
    if e[0] in BIN:
        return BIN[e[0]][1]
    if e[0] in UN:
        return 10
    return 11


def show(e, rng, toks):
    """minimal C parentheses (left-assoc), random extra parentheses/whitespace; also emits tokens"""
    def sp():
        return rng.choice(["", " ", " ", "  ", "\t"])

    def go(e, minp):
        k = e[0]
        extra = rng.random() < 0.08
        need = prec(e) < minp or extra
        s = ""
        if need:
            toks.append("TL")
            s += "(" + sp()
        if k == "num":
            n = e[1]
            form = rng.random()
            if n % (1 << 20) == 0 and n and form < 0.3 and n >> 20 < W:
                s += f"{n >> 20}M"
            elif n % 1024 == 0 and n and form < 0.5:
                s += f"{n >> 10}K"
            elif form < 0.75:
                s += hex(n)
            else:
                s += str(n)
            toks.append(f"TNum {n}")
        elif k in BIN:
            p = BIN[k][1]
            s += go(e[1], p)
            s += sp() + BIN[k][0] + sp()
            toks.append(f"TOp {COQBIN[k]}")
            s += go(e[2], p + 1)
        elif k in UN:
            s += UN[k]
            toks.append({"lnot": "TBang", "not": "TTilde", "neg": "TOp Sub"}[k])
            if k == "neg":
                s += rng.choice(["", " "])
            s += go(e[1], 10)
        else:
            s += k.upper() + sp() + "(" + sp()
            toks.append("TMin" if k == "min" else "TMax")
            toks.append("TL")
            s += go(e[1], 0) + sp() + "," + sp()
            toks.append("TComma")
            s += go(e[2], 0) + sp() + ")"
            toks.append("TR")
        if need:
            s += sp() + ")"
            toks.append("TR")
        return s
    return go(e, 0)


def coq_expr(e):
    k = e[0]
    if k == "num":
        return f"(Num {e[1]})"
    if k in BIN:
        return f"(Bin {COQBIN[k]} {coq_expr(e[1])} {coq_expr(e[2])})"
    if k in UN:
        return f"(Un {COQUN[k]} {coq_expr(e[1])})"
    if k == "align":
        return f"(Align {coq_expr(e[1])})"
    return f"({'Min' if k == 'min' else 'Max'} {coq_expr(e[1])} {coq_expr(e[2])})"


def parse_sexp(s):
    toks = s.replace("(", " ( ").replace(")", " ) ").split()
    pos = 0

    def go():
        nonlocal pos
        t = toks[pos]
        if t == "(":
            pos += 1
            head = toks[pos]
            pos += 1
            args = []
            while toks[pos] != ")":
                args.append(go())
            pos += 1
            return (head, *args)
        pos += 1
        return ("num", int(t))
    return go()


def has_cmp_below_bitwise(e):
    """known class: a comparison operator is an operand of & ^ | (C reading), where wild re-associates"""
    k = e[0]
    if k == "num":
        return False
    if k in ("and", "or", "xor"):
        for c in e[1:]:
            if c[0] in ("lt", "gt", "le", "ge", "eq", "ne"):
                return True
    return any(has_cmp_below_bitwise(c) for c in e[1:] if isinstance(c, tuple))


def signed_div_in_tree():
    src = open(os.path.join(REPO, "libwild/src/expression_eval.rs")).read()
    return "wrapping_div" in src


def run(chk, replay=None):
    coq = coq_build(["C16"], ["C16/Props.v"])
    chk.add_coq(coq)
    ok, out, binp = harness_build(False)
    if not ok:
        chk.tie_break("harness does not build against /repo", out[-3000:])
        return chk.finish(TRUSTED)
    rng = chk.rng
    n = 1500 if chk.tier == "quick" else 20000
    cases = []
    if replay:
        for c in json.load(open(replay))["replay"]["cases"]:
            cases.append((parse_sexp(c["c_ast"]) if isinstance(c["c_ast"], str) else c["c_ast"], c["text"], c["toks"]))
    else:
        cp = os.path.join(ROOT, "corpus", "C16.json")
        asts = []
        if os.path.exists(cp):
            asts += [parse_sexp(s) for s in json.load(open(cp))]
        # operator-pair table: every ordered pair of binary operators, both nestings
        ops = list(BIN)
        for a in ops:
            for b in ops:
                asts.append((a, (b, ("num", 6), ("num", 3)), ("num", 2)))
                asts.append((a, ("num", 6), (b, ("num", 3), ("num", 2))))
        for _ in range(n):
            asts.append(gen_ast(rng, rng.randrange(1, 5), True))
        for a in asts:
            toks = []
            text = show(a, rng, toks)
            cases.append((a, text, toks))
    lines = ["x " + t.encode().hex() for _, t, _ in cases]
    res = run_impl(binp, "c16", lines)

    def sexp(e):
        return str(e[1]) if e[0] == "num" else "(" + e[0] + " " + " ".join(sexp(c) for c in e[1:]) + ")"

    items = []
    impl = []
    for i, ((a, text, toks), r) in enumerate(zip(cases, res)):
        if r == "PANIC":
            chk.violation(f"parser/evaluator panicked on {text!r}", {"cases": [{"c_ast": sexp(a), "text": text, "toks": toks}]})
            impl.append((None, None))
            continue
        ast_s, val_s = [x.strip() for x in r.split("|")]
        iast = None if ast_s == "REJECT" else parse_sexp(ast_s)
        ival = -1 if val_s in ("P", "E") else int(val_s)
        impl.append((iast, ival))
        items.append(f"({i}, [{'; '.join(toks)}], {coq_expr(a)}, {'None' if iast is None else 'Some ' + coq_expr(iast)}, ({ival})%Z)")
    sd = signed_div_in_tree()
    pre = IMPORTS.replace("SIGNED_DIV", "true" if sd else "false")
    bodies = []
    for s in range(NCPU):
        part = items[s::NCPU]
        bodies.append("Definition cases : list (N * list tok * expr * option expr * Z) := [\n" + ";\n".join(part) +
                      "].\nEval vm_compute in map check cases.\n")
    results = {}
    for rc, out in coq_eval_sharded("c16", pre, bodies, timeout=900):
        if rc != 0:
            chk.tie_break("model evaluation failed (coqc)", out[-2000:])
            continue
        for row in parse_coq_value(out):
            results[row[0]] = row
    known = {k["id"]: k for k in chk.known}
    stats = {"accepted": 0, "rejected": 0, "spec_defined": 0, "parse_mismatch": 0, "eval_mismatch": 0, "gen_selfcheck_fail": 0,
             "c_vs_wild_parse_differ": 0}
    pair_cov = set()
    nontrivial = 0
    for i, (a, text, toks) in enumerate(cases):
        if i not in results:
            continue
        _, flags, spec_v = results[i]
        parse_ok, eval_ok, cparse_ok, same_as_c = flags
        iast, ival = impl[i]
        rep = {"c_ast": sexp(a), "text": text, "toks": toks}
        if not cparse_ok:
            stats["gen_selfcheck_fail"] += 1
            chk.tie_break("generator self-check: printed text does not parse back to the intended tree under C precedence (model parser with c_levels)", rep)
            continue
        if iast is None:
            stats["rejected"] += 1
        else:
            stats["accepted"] += 1
        if not parse_ok:
            stats["parse_mismatch"] += 1
            chk.tie_break("parser model/implementation disagree", dict(rep, impl_ast=None if iast is None else sexp(iast)))
        if not eval_ok:
            stats["eval_mismatch"] += 1
            chk.tie_break("evaluator model/implementation disagree", dict(rep, impl_value=ival))
        if not same_as_c:
            stats["c_vs_wild_parse_differ"] += 1
        if a[0] in BIN:
            for c in a[1:]:
                if c[0] in BIN:
                    pair_cov.add((a[0], c[0]))
        # ---- the property: every accepted expression has the value GNU ld computes
        if iast is not None and spec_v >= 0 and ival >= 0:
            stats["spec_defined"] += 1
            if len(toks) > 3:
                nontrivial += 1
            if ival != spec_v:
                fid = None
                if "C16-cmp-precedence" in known and has_cmp_below_bitwise(a) and iast != a:
                    fid = "C16-cmp-precedence"
                if fid:
                    chk.known_hit(fid, rep)
                else:
                    chk.violation(f"wild evaluates {text!r} to {ival}; GNU ld semantics give {spec_v}", {"cases": [rep], "impl_ast": sexp(iast), "impl_value": ival, "spec_value": spec_v})
        elif iast is not None and spec_v >= 0 and ival < 0:
            if "C16-cmp-precedence" in known and has_cmp_below_bitwise(a) and iast != a:
                chk.known_hit("C16-cmp-precedence", rep)        # parsed differently (the known precedence), and that parse divides by zero
                continue
            chk.violation(f"wild fails to evaluate {text!r}; GNU ld semantics give {spec_v}", {"cases": [rep], "impl_ast": sexp(iast), "spec_value": spec_v})

    # ---- spec validation against real ld + end-to-end through the wild binary (ASSERT scripts)
    e2e = {"scripts": 0, "spec_vs_ld_mismatch": 0, "wild_binary_vs_api_mismatch": 0}
    okw, outw, wild = wild_build()
    if not okw:
        chk.tie_break("wild does not build", outw[-2000:])
    else:
        d = tempfile.mkdtemp(prefix="wv-c16-")
        try:
            open(f"{d}/a.s", "w").write(".globl _start\n.text\n_start: ret\n")
            sh(f"as -o {d}/a.o {d}/a.s", check=True)
            sel = [i for i in results if results[i][2] >= 0 and impl[i][0] is not None]
            rng.shuffle(sel)
            sel = [i for i in sel if "^" not in cases[i][1]]   # GNU ld 2.40 has no ^ in its expression lexer: XOR cannot be validated here
            for i in sel[:(60 if chk.tier == "quick" else 600)]:
                a, text, toks = cases[i]
                spec_v = results[i][2]
                script = f"ASSERT(({text}) == {spec_v:#x}, \"spec\")\n"
                open(f"{d}/t.ld", "w").write(script)
                rc_ld, o_ld = sh(f"ld -o {d}/o.ld {d}/a.o -T {d}/t.ld", timeout=60)
                rc_w, o_w = sh(f"{wild} -o {d}/o.w {d}/a.o -T {d}/t.ld", timeout=60)
                e2e["scripts"] += 1
                if rc_ld != 0:
                    e2e["spec_vs_ld_mismatch"] += 1
                    chk.tie_break("spec validation: C16/Spec.v disagrees with installed GNU ld", {"script": script, "ld": o_ld[-300:]})
                api_ok = impl[i][1] == spec_v
                if (rc_w == 0) != api_ok:
                    e2e["wild_binary_vs_api_mismatch"] += 1
                    chk.tie_break("wild binary and hook API disagree on an ASSERT", {"script": script, "wild_rc": rc_w, "api_value": impl[i][1]})
        finally:
            shutil.rmtree(d, ignore_errors=True)
    chk.cov.update({
        "evaluations": len(cases) + 2 * e2e["scripts"], "distinct_nontrivial": nontrivial,
        "rule": "all 17x17 ordered operator pairs in both nestings + seeded random trees (depth<=4, boundary literals), printed with minimal C parentheses, random extra "
                "parentheses/whitespace, K/M/hex literals; non-trivial = accepted, spec-defined, more than 3 tokens",
        "stats": stats, "operator_pairs_covered": len(pair_cov), "signed_division_in_tree": sd, "end_to_end": e2e,
        "samples": [{"text": c[1], "impl": r} for c, r in list(zip(cases, res))[::max(1, len(cases) // 6)][:6]],
    })
    chk.assumptions = TRUSTED
    return chk.finish(TRUSTED)
