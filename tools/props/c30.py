"""C30 — constructor / destructor order matches GNU ld.
Theorems: coq/C30/Props.v (wild's bucket order = GNU ld's SORT_BY_INIT_PRIORITY order on every input whose priorities are
below 65535 after the .ctors inversion; refutations for the rest).  Tie T2: generated objects/archives with
.init_array[.N] / .ctors[.N] / .fini_array[.N] / .dtors[.N] / .preinit_array sections are linked by wild, the entry
order read back from the output and compared with the model's wild_order; spec validation: the same link with GNU ld
against gnu_order; property predicate on the implementation: wild's order = ld's order."""
from wvlib import *
import tempfile, shutil, struct
import elfread

TRUSTED = [
    "Coq 8.16.1 kernel incl. vm_compute; axioms: none",
    "spec = GNU ld's default-script statements for .init_array/.fini_array written as a stable sort (C30/Model.v gnu_order), validated on every run against GNU ld 2.40 itself on the generated links",
    "crtbegin/crtend EXCLUDE_FILE clauses and a separate legacy .ctors/.dtors output section are outside the generated inputs (wild never emits one)",
    "entries are identified by the address of a unique one-instruction function; execution order = array order (init) / reverse array order (fini) by the psABI",
]

IMPORTS = """From Coq Require Import ZArith List Bool. Import ListNotations.
From WV Require Import C30.Model.
Open Scope Z_scope.
Definition S (lg : bool) (sf : option (list Z)) (a : Z) (e : list Z) : sec := {| legacy := lg; suffix := sf; align := a; entries := e |}.
Definition both (l : list sec) := (wild_order l, gnu_order l).
"""

# the extent model (C30/Extent.v) on the parts wild's layout actually produced (layout trace hook)
IMPORTS_EXT = """From Coq Require Import ZArith List Bool. Import ListNotations.
From WV Require Import C30.Extent.
Open Scope Z_scope.
Definition R (o s : Z) : rec := {| off := o; size := s; msize := s |}.
Definition ext (p0 : Z) (bs : list (nat * Z)) (ids : list rec) :=
  let sec := section p0 bs ids in (off sec, size sec, msize sec, map off (place (off (primary p0 bs)) bs)).
"""


def trace_extent(path, name):
    """from the layout trace: (file offset of the primary's first part, [(alignment exponent, file offset, bytes)] of
    the non-empty secondaries in layout order)"""
    from props import c04
    try:
        tr = c04.parse_trace(path)
    except Exception:
        return None
    prim, secs = None, []
    for sc in tr["sections"]:
        if sc["name"] != name or not sc["parts"]:
            continue
        ne = [p for p in sc["parts"] if p["file_size"] > 0]
        if not sc["secondary"]:
            prim = sc["parts"][0]["file"]
            if ne:
                return None          # the primary itself holds data: outside the model
        elif ne:
            lo = min(p["file"] for p in ne)
            hi = max(p["file"] + p["file_size"] for p in ne)
            al = max(p["align"] for p in ne)
            secs.append((al.bit_length() - 1, lo, hi - lo))
    if prim is None:
        return None
    return prim, secs

GOOD_N = ["00100", "00101", "00200", "01000", "65534", "00000", "00005", "30000"]
GOOD_LEG = ["00150", "65535", "65035", "00001", "00250", "30500", "65530"]
BAD_N = ["100", "5", "0100", "65535", "65536", "70000", "4294967296", "2147483648", "4294967295", "abc", "12a", "", "065535"]
BAD_LEG = ["65435", "65335", "65534", "35535", "0", "00000", "65536", "70000", "x", "", "4294967296"]


def good_sec(s, a0):
    lg, sf, al, _e = s
    if al != a0:
        return False
    if sf is None:
        return True
    if not sf or not all(c in "0123456789" for c in sf):
        return False
    v = int(sf)
    return (0 < v <= 65535) if lg else v < 65535


def gnu_prio(s):
    lg, sf, al, _e = s
    if sf is None or not sf or not all(c in "0123456789" for c in sf):
        return -1
    v = min(int(sf), 2 ** 64 - 1)
    p = (65535 - v) % 2 ** 64 if lg else v
    return p if p <= 2 ** 31 - 1 else -1


def name_determined(secs):
    """equal priority => same spelling (GCC always writes five digits and does not mix .ctors.N with .init_array.M of one priority)"""
    seen = {}
    for s in secs:
        if s[1] is None:
            continue
        k = gnu_prio(s)
        if seen.setdefault(k, (s[0], s[1])) != (s[0], s[1]):
            return False
    return True


def gen_program(rng, bad):
    """list of files; file = dict(name, archive?, sections=[(family, legacy, suffix, align, [ids])])"""
    nobj = rng.randrange(1, 5)
    files = []
    fid = 0
    for o in range(nobj):
        secs = []
        for _ in range(rng.randrange(1, 5)):
            fam = rng.choice(["init", "init", "fini", "pre"] if o == 0 else ["init", "init", "fini"])
            lg = fam != "pre" and rng.random() < 0.4
            if fam == "pre":
                sf = None
            else:
                r = rng.random()
                if r < 0.35:
                    sf = None
                elif bad and rng.random() < 0.5:
                    sf = rng.choice(BAD_LEG if lg else BAD_N)
                else:
                    sf = rng.choice(GOOD_LEG if lg else GOOD_N)
            al = 16 if (bad and rng.random() < 0.25) else 8
            ids = []
            for _ in range(rng.randrange(1, 4)):
                fid += 1
                ids.append(fid)
            for k, (f2, l2, s2, a2, i2) in enumerate(secs):      # the assembler merges same-name sections of one object
                if (f2, l2, s2) == (fam, lg, sf):
                    secs[k] = (f2, l2, s2, max(a2, al), i2 + ids)
                    break
            else:
                secs.append((fam, lg, sf, al, ids))
        files.append({"name": f"o{o}", "archive": o > 0 and rng.random() < 0.3, "sections": secs, "progbits": rng.random() < 0.25})
    return files


def secname(fam, lg, sf):
    base = {"init": ".ctors" if lg else ".init_array", "fini": ".dtors" if lg else ".fini_array", "pre": ".preinit_array"}[fam]
    return base if sf is None else base + "." + sf


def build(d, files):
    objs = []
    for f in files:
        src = [".text", f".globl anchor_{f['name']}", f"anchor_{f['name']}: ret"]
        for fam, lg, sf, al, ids in f["sections"]:
            for i in ids:
                src += [f".globl f{i}", f"f{i}: ret"]
        for fam, lg, sf, al, ids in f["sections"]:
            ty = {"init": "@init_array", "fini": "@fini_array", "pre": "@preinit_array"}[fam] if not lg else "@progbits"
            src.append(f'.section {secname(fam, lg, sf)},"aw",{ty}')
            src.append(f".balign {al}")
            for i in ids:
                src.append(f".quad f{i}")
            src.append(".text")
        open(f"{d}/{f['name']}.s", "w").write("\n".join(src) + "\n")
        rc, out = sh(f"cd {d} && as --64 {f['name']}.s -o {f['name']}.o", timeout=60)
        if rc != 0:
            return None, out
        if f.get("progbits"):
            # what older LLVM releases and hand-written assembly produce: array sections of type SHT_PROGBITS (gas insists on
            # the array types, so the section headers are rewritten); the sections are still placed and ordered by NAME
            pth = f"{d}/{f['name']}.o"
            b = bytearray(open(pth, "rb").read())
            shoff, = struct.unpack_from("<Q", b, 0x28)
            shentsize, shnum, shstrndx = struct.unpack_from("<HHH", b, 0x3A)
            stroff, = struct.unpack_from("<Q", b, shoff + shstrndx * shentsize + 0x18)
            for i in range(shnum):
                h = shoff + i * shentsize
                name_off, sh_type = struct.unpack_from("<II", b, h)
                nm_ = bytes(b[stroff + name_off:b.index(0, stroff + name_off)])
                if sh_type in (14, 15, 16) and nm_.startswith((b".init_array", b".fini_array", b".preinit_array")):
                    struct.pack_into("<I", b, h + 4, 1)
                    struct.pack_into("<Q", b, h + 0x38, 0)
            open(pth, "wb").write(b)
    main = [".text", ".globl _start", "_start:"]
    for f in files:
        main.append(f" call anchor_{f['name']}")
    main += [" mov $60,%eax", " xor %edi,%edi", " syscall"]
    open(f"{d}/main.s", "w").write("\n".join(main) + "\n")
    rc, out = sh(f"cd {d} && as --64 main.s -o main.o", timeout=60)
    if rc != 0:
        return None, out
    args = ["main.o"]
    for f in files:
        if f["archive"]:
            rc, out = sh(f"cd {d} && rm -f lib{f['name']}.a && ar rcs lib{f['name']}.a {f['name']}.o", timeout=60)
            args.append(f"lib{f['name']}.a")
        else:
            args.append(f"{f['name']}.o")
    return args, ""


def read_order(path, secname_):
    """(entries between __X_array_start/__X_array_end — what a static start-up runs —, entries inside the section header's
    sh_size — what DT_X_ARRAYSZ tells ld.so)"""
    e = elfread.Elf(path)
    addr2id = {}
    syms = {}
    for s in e.symbols(".symtab"):
        m = re.fullmatch(r"f(\d+)", s["name"])
        if m:
            addr2id[s["value"]] = int(m.group(1))
        syms[s["name"]] = s["value"]

    def entries(data):
        out = []
        for i in range(len(data) // 8):
            v = struct.unpack_from("<Q", data, 8 * i)[0]
            if v != 0:                   # alignment padding
                out.append(addr2id.get(v, -v))
        return out
    sec = e.section(secname_)
    by_size = entries(e.data(sec)) if sec is not None else []
    base = secname_[1:]
    lo, hi = syms.get(f"__{base}_start"), syms.get(f"__{base}_end")
    if lo is None or hi is None or hi < lo:
        return by_size, by_size, 0
    raw = e.read_va(lo, hi - lo) or b""
    by_sym = entries(raw)
    return by_sym, by_size, len(raw) // 8 - len(by_sym)


def coq_sec(lg, sf, al, ids):
    sfx = "None" if sf is None else "(Some [" + "; ".join(str(ord(c)) for c in sf) + "])"
    return f"S {'true' if lg else 'false'} {sfx} {al} [{'; '.join(map(str, ids))}]"


def run(chk, replay=None):
    coq = coq_build(["C30"], ["C30/Props.v"])
    chk.add_coq(coq)
    okw, outw, wild = wild_build()
    if not okw:
        chk.tie_break("wild does not build", outw[-2000:])
        return chk.finish(TRUSTED)
    rng = chk.rng
    progs = []
    if replay:
        progs = json.load(open(replay))["replay"]["programs"]
    else:
        cp = os.path.join(ROOT, "corpus", "C30.json")
        if os.path.exists(cp):
            progs += json.load(open(cp))
        n = 60 if chk.tier == "quick" else 500
        for k in range(n):
            progs.append(gen_program(rng, bad=(k % 4 == 3)))
    for p in progs:
        for f in p:
            f["sections"] = [tuple(s) for s in f["sections"]]
    known = {k["id"] for k in chk.known}
    stats = {"programs": len(progs), "families": 0, "entries": 0, "good_families": 0, "wild_eq_ld": 0, "model_mismatch": 0, "spec_mismatch": 0,
             "with_archive": 0, "with_priorities": 0, "with_legacy": 0, "bad_suffix": 0, "mixed_align": 0, "not_name_determined": 0}
    d = tempfile.mkdtemp(prefix="c30")
    results = []      # (prog index, family, wild list, ld list)
    extents = []      # (prog index, family, (primary offset, parts), (sh_offset, sh_size))
    try:
        for pi, files in enumerate(progs):
            args, err = build(d, files)
            if args is None:
                chk.tie_break("as failed on a generated object", err[-500:])
                continue
            rcw, outw_ = sh(f"cd {d} && rm -f trace && WILD_VERIF_LAYOUT={d}/trace timeout 60 {wild} {' '.join(args)} -o out.wild", timeout=90)
            rcl, outl = sh(f"cd {d} && timeout 60 ld {' '.join(args)} -o out.ld", timeout=90)
            if rcw != 0 or rcl != 0:
                chk.tie_break("a generated program does not link", {"wild": outw_[-400:], "ld": outl[-400:], "program": files})
                continue
            if any(f["archive"] for f in files):
                stats["with_archive"] += 1
            for fam, sn in (("init", ".init_array"), ("fini", ".fini_array"), ("pre", ".preinit_array")):
                w_sym, w_size, w_zero = read_order(d + "/out.wild", sn)
                l_sym, l_size, l_zero = read_order(d + "/out.ld", sn)
                results.append((pi, fam, w_sym, l_sym if l_sym else l_size, w_size, w_zero, l_zero))
                te = trace_extent(d + "/trace", sn) if os.path.exists(d + "/trace") else None
                hdr = elfread.Elf(d + "/out.wild").section(sn)
                if te is not None and te[1] and hdr is not None:
                    extents.append((pi, fam, te, (hdr["offset"], hdr["size"])))
    finally:
        shutil.rmtree(d, ignore_errors=True)
    # the model on the same inputs
    items = []
    for pi, fam, wl, ll, wsz, wz, lz in results:
        secs = [(lg, sf, al, ids) for f in progs[pi] for (fm, lg, sf, al, ids) in f["sections"] if fm == fam]
        items.append("both [" + "; ".join(coq_sec(*s) for s in secs) + "]")
    mres = []
    if items:
        per = (len(items) + NCPU - 1) // NCPU
        bodies = ["Eval vm_compute in [\n" + ";\n".join(items[k * per:(k + 1) * per]) + "].\n" for k in range(NCPU) if items[k * per:(k + 1) * per]]
        okm = True
        for rc, out in coq_eval_sharded("c30", IMPORTS, bodies, timeout=900):
            if rc != 0:
                chk.tie_break("model evaluation failed (coqc)", out[-1500:])
                okm = False
                continue
            mres += parse_coq_value(out)
        if okm and len(mres) != len(items):
            chk.tie_break("model evaluation: wrong number of answers", {"items": len(items), "answers": len(mres)})
            mres = []
    # the extent model on wild's own parts: merge (any order) and place against the section header and the trace
    stats["extent_families"] = len(extents)
    if extents:
        eitems = []
        for pi, fam, (prim, parts), hdr in extents:
            bs = "; ".join(f"({k}%nat, {sz})" for k, o, sz in parts)
            ids = "; ".join(f"R {o} {sz}" for k, o, sz in reversed(parts))       # an order other than layout order
            eitems.append(f"ext {prim} [{bs}] [{ids}]")
        rc, out = coq_eval("c30ext", "Eval vm_compute in [\n" + ";\n".join(eitems) + "].\n", IMPORTS_EXT, timeout=600)
        eres = parse_coq_value(out) if rc == 0 else []
        if rc != 0 or len(eres) != len(extents):
            chk.tie_break("extent model evaluation failed (coqc)", out[-1500:])
        else:
            for (pi, fam, (prim, parts), hdr), (mo, msz, mmsz, mplace) in zip(extents, eres):
                rep = {"programs": [progs[pi]], "family": fam, "trace": {"primary": prim, "parts": parts}, "header": list(hdr), "model": [mo, msz, mplace]}
                if list(mplace) != [o for k, o, sz in parts]:
                    stats["model_mismatch"] += 1
                    chk.tie_break("correspondence C30.place: the parts' offsets in wild's layout differ from the model's placement", rep)
                if (mo, msz) != hdr or mmsz != msz:
                    stats["model_mismatch"] += 1
                    chk.tie_break("correspondence C30.section: the section header's offset/size differ from the model's merge of the parts", rep)
    samples = []
    for (pi, fam, wl, ll, wsz, wz, lz), m in zip(results, mres):
        secs = [(lg, sf, al, ids) for f in progs[pi] for (fm, lg, sf, al, ids) in f["sections"] if fm == fam]
        if not secs:
            continue
        stats["families"] += 1
        stats["entries"] += len(wl)
        a0 = secs[0][2]
        bad_sfx = any(not good_sec((lg, sf, a0, ids), a0) for lg, sf, al, ids in secs)
        mixed = len({s[2] for s in secs}) > 1
        named = name_determined(secs)
        is_good = all(good_sec(s, a0) for s in secs) and named
        defined = all(s[1] is None or gnu_prio(s) >= 0 for s in secs)
        stats["good_families"] += int(is_good)
        stats["bad_suffix"] += int(bad_sfx)
        stats["mixed_align"] += int(mixed)
        stats["not_name_determined"] += int(not named)
        stats["with_priorities"] += int(any(s[1] is not None for s in secs))
        stats["with_legacy"] += int(any(s[0] for s in secs))
        mw, mg = m
        rep = {"programs": [progs[pi]], "family": fam, "wild": wl, "ld": ll, "model_wild": mw, "model_gnu": mg}
        if fam == "pre":
            mw = mg = [i for s in secs for i in s[3]]
        if wl != mw:
            stats["model_mismatch"] += 1
            chk.tie_break("correspondence C30.wild_order: wild's output order differs from the model", rep)
        if ll != mg and defined:
            stats["spec_mismatch"] += 1
            chk.tie_break("spec validation C30.gnu_order: GNU ld's output order differs from the specification", rep)
        if wsz != wl:
            what = (f".{fam}_array: the section header (and DT_{fam.upper()}_ARRAYSZ) covers {wsz} but __{fam}_array_start..end holds {wl}: "
                    "entries outside the section size are not run by the dynamic loader")
            chk.violation(what, rep)
        over = any(al > 8 and (8 * len(ids)) % al for lg, sf, al, ids in secs)
        if wz > lz and over and "C30-over-aligned-section-padded" in known:
            chk.known_hit("C30-over-aligned-section-padded", rep)
        elif wz > lz and not mixed:
            chk.violation(f"__{fam}_array_start..end holds {wz} zero word(s) with wild and {lz} with GNU ld: start-up code calls every word of the array, a null one included", rep)
        if wl == ll:
            stats["wild_eq_ld"] += 1
        else:
            what = f".{fam}_array entries are emitted in the order {wl}, GNU ld emits {ll}; sections " + \
                   ", ".join(f"{f['name']}:{secname(fm, lg, sf)}{ids}" for f in progs[pi] for (fm, lg, sf, al, ids) in f["sections"] if fm == fam)
            if is_good:
                chk.violation(what, rep)        # inside the proved domain: never a known finding
            elif bad_sfx and "C30-priority-65535-and-above" in known:
                chk.known_hit("C30-priority-65535-and-above", rep)
            elif not named and "C30-equal-priority-different-name" in known:
                chk.known_hit("C30-equal-priority-different-name", rep)
            elif mixed and "C30-mixed-alignment" in known:
                chk.known_hit("C30-mixed-alignment", rep)
            else:
                chk.violation(what, rep)
        if len(samples) < 4 and len(secs) > 2:
            samples.append({"sections": [secname(fam, s[0], s[1]) for s in secs], "wild": wl, "ld": ll})
    chk.cov.update({
        "evaluations": stats["families"], "distinct_nontrivial": stats["with_priorities"],
        "rule": "1-4 objects (30% of the non-first ones inside an archive, pulled in by a call), 1-4 array sections each with 1-3 entries; names .init_array/.ctors/.fini_array/.dtors with "
                "no suffix 35%, GCC-range priorities (incl. leading zeros) and, in every 4th program, out-of-range / non-numeric / empty suffixes and 16-byte alignment; "
                "non-trivial = the family has at least one prioritised section",
        "stats": stats, "samples": samples,
    })
    return chk.finish(TRUSTED)
