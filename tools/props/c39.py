"""C39 — parallel layout traversal loses no work and always finishes.
Theorems: coq/C39/Props.v (all interleavings of the transition system: no lost work, routing, terminal closure, termination)
and coq/C39/Replay.v (validator).  Tie (T3): event logs of real links (verif_hooks build: one event per critical section of
layout.rs, schedule perturbation seeds, 1..16 threads, one file per group) replayed through the model by vm_compute."""
from wvlib import *
import objgen, tempfile

TRUSTED = [
    "Coq 8.16.1 kernel incl. vm_compute; axioms: none",
    "model C39/Model.v: transition system of find_required_sections/activate_group/do_pending_work/send_work; one step = one critical section; sequentially consistent interleaving semantics "
    "(the Relaxed fetch_sub next to the ArrayQueue push is SC on x86-64/TSO; weak-memory behaviour on other hardware is outside the model)",
    "exclusive ownership of a GroupState by one task/slot/delay-queue is Rust move semantics, represented structurally",
    "tie: event log appended inside the same critical section as the operation (slot mutex held; for fetch_sub and the delay-queue push the log mutex is held across the operation); "
    "handlers are abstracted to a successor function: which requests a handler emits is validated by C05's closure check, not here",
]
IMPORTS = """From Coq Require Import List Bool Arith. Import ListNotations.
From WV Require Import C39.Replay.
"""


def link_once(wild, d, objs, threads, seed, fpg=1, extra=(), timeout=120):
    log = f"{d}/ev_{threads}_{seed}.log"
    if os.path.exists(log):
        os.remove(log)
    env = dict(os.environ, WILD_VERIF_LOG=log, WILD_FILES_PER_GROUP=str(fpg))
    if seed is not None:
        env["WILD_VERIF_SCHED_SEED"] = str(seed)
    out = f"{d}/out_{threads}_{seed}"
    try:
        p = subprocess.run([wild, "--no-fork", f"--threads={threads}", "-o", out] + list(extra) + objs, env=env,
                           stdout=subprocess.PIPE, stderr=subprocess.PIPE, timeout=timeout, text=True)
        rc, err = p.returncode, p.stderr
    except subprocess.TimeoutExpired:
        rc, err = "timeout", ""
    ev = open(log).read() if os.path.exists(log) else ""
    return rc, err, ev, out


def parse_log(ev):
    events, snap, end = [], [], None
    for line in ev.splitlines():
        ph, k, a, b = line.split()
        if ph != "gc":
            continue
        k, a, b = int(k), int(a), int(b)
        if k == 255:
            break
        if k == 9:
            end = (a, b)
        elif k == 10:
            snap.append((a, b >> 1, b & 1))
        else:
            events.append((k, a, b))
    return events, snap, end


def run(chk, replay=None):
    coq = coq_build(["C39"], ["C39/Props.v", "C39/Replay.v"])
    chk.add_coq(coq)
    okw, outw, wild = wild_build()
    if not okw:
        chk.tie_break("wild does not build", outw[-2000:])
        return chk.finish(TRUSTED)
    rng = chk.rng
    d = tempfile.mkdtemp(prefix="wv-c39-")
    traces = []
    stats = {"links": 0, "events": 0, "max_groups": 0, "sends_waking": 0, "sends_queued": 0, "swaps": 0, "error_links": 0}
    try:
        nprog = 6 if chk.tier == "quick" else 30
        for pi in range(nprog):
            nobj = rng.choice([2, 5, 12, 30]) if chk.tier == "quick" else rng.choice([2, 5, 12, 30, 64])
            prog = objgen.Program(rng, nobj, rng.choice([2, 4, 6]), density=rng.choice([0.15, 0.3, 0.5]))
            pd = f"{d}/p{pi}"
            os.makedirs(pd)
            objs = []
            srcs = prog.sources()
            if pi % 3 == 2:
                # a failing link: an undefined reference in one object => handler error path (worker dropped)
                srcs["o0.s"] += '.section .text.bad,"ax",@progbits\n.globl bad\nbad: call no_such_symbol_anywhere\n'
                srcs["main.s"] = srcs["main.s"].replace(" xor %ebx,%ebx", " xor %ebx,%ebx\n call bad", 1)
            for name, text in srcs.items():
                open(f"{pd}/{name}", "w").write(text)
                sh(f"as -o {pd}/{name[:-2]}.o {pd}/{name}", check=True)
                objs.append(f"{pd}/{name[:-2]}.o")
            combos = [(t, s) for t in (1, 2, 4, 16) for s in ((None, 1, 2) if chk.tier == "quick" else (None, 1, 2, 3, 4, 5, 6, 7))]
            for threads, seed in combos:
                rc, err, ev, out = link_once(wild, pd, objs, threads, seed)
                stats["links"] += 1
                rep = {"program_seed": chk.seed, "program_index": pi, "threads": threads, "sched_seed": seed, "nobj": nobj,
                       "cmd": f"WILD_VERIF_SCHED_SEED={seed} WILD_FILES_PER_GROUP=1 wild --no-fork --threads={threads} ..."}
                if rc == "timeout":
                    chk.violation("the link does not terminate (120 s) — parallel traversal stuck", rep)
                    continue
                if isinstance(rc, int) and rc < 0 or "panicked" in err:
                    chk.violation(f"the link crashed (rc={rc}): {err[-300:]}", rep)
                    continue
                events, snap, end = parse_log(ev)
                if end is None:
                    if rc == 0:
                        chk.tie_break("no event log from a successful link", rep)
                    continue
                if pi % 3 == 2:
                    stats["error_links"] += 1
                    if rc == 0:
                        chk.tie_break("link with an undefined symbol unexpectedly succeeded", rep)
                elif rc != 0:
                    chk.violation(f"a valid program fails to link: {err[-300:]}", rep)
                stats["events"] += len(events)
                stats["max_groups"] = max(stats["max_groups"], end[0])
                stats["sends_waking"] += sum(1 for e in events if e[0] == 8 and e[2] == 1)
                stats["sends_queued"] += sum(1 for e in events if e[0] == 8 and e[2] == 0)
                stats["swaps"] += sum(1 for e in events if e[0] == 7)
                traces.append((rep, events, snap, end))
    finally:
        shutil.rmtree(d, ignore_errors=True)
    # replay every trace through the model
    items = []
    for rep, events, snap, end in traces:
        es = "[" + "; ".join(f"({k},{a},{b})" for k, a, b in events) + "]"
        sn = "[" + "; ".join(f"({g},{l},{'true' if w else 'false'})" for g, l, w in snap) + "]"
        items.append(f"validate {end[0]} {end[1]} {es} {sn}")
    per = (len(items) + NCPU - 1) // NCPU
    bodies = ["Eval vm_compute in [\n" + ";\n".join(items[k * per:(k + 1) * per]) + "].\n" for k in range(NCPU) if items[k * per:(k + 1) * per]]
    verdicts = []
    for rc, out in coq_eval_sharded("c39", IMPORTS, bodies, timeout=900):
        if rc != 0:
            chk.tie_break("model evaluation failed (coqc)", out[-1500:])
        else:
            verdicts += parse_coq_value(out)
    bad = 0
    if len(verdicts) == len(traces):
        for (rep, events, snap, end), v in zip(traces, verdicts):
            if v[0] == 1:
                bad += 1
                i = v[1]
                names = {1: "Activate", 2: "Delay", 3: "Count", 4: "Release", 5: "Fail", 6: "Park", 7: "Swap", 8: "Send"}
                chk.violation(f"recorded history leaves the proved protocol at event {i}: {names.get(events[i][0])}{events[i][1:]} is not an enabled step "
                              f"(e.g. park with queued work, send that misses a parked worker, count out of order)",
                              dict(rep, event_index=i, event=list(events[i]), prefix=[list(e) for e in events[max(0, i - 12):i + 1]]))
            elif v[0] == 2:
                bad += 1
                chk.violation("the traversal ended in a state that is not the terminal state of the model (queued work left, worker not parked, counter not 0, or delay queue not empty)",
                              dict(rep, snapshot=[list(x) for x in snap], end=list(end)))
    chk.cov.update({
        "evaluations": stats["links"], "distinct_nontrivial": sum(1 for t in traces if any(e[0] == 8 for e in t[1])),
        "traces_validated_against_impl": len(traces), "states": stats["events"] + len(traces), "transitions": stats["events"],
        "rule": "generated programs (2..64 objects, one object per group, random cross-object call/data graphs, start/stop set, init_array; every third program has an undefined symbol to "
                "exercise the error path) x threads {1,2,4,16} x schedule-perturbation seeds; each recorded history replayed event by event through the model; non-trivial = history with cross-group sends",
        "stats": stats, "rejected_histories": bad,
        "samples": [{"threads": t[0]["threads"], "sched_seed": t[0]["sched_seed"], "groups": t[3][0], "first_events": [list(e) for e in t[1][:12]]} for t in traces[:3]],
    })
    chk.assumptions = TRUSTED
    return chk.finish(TRUSTED)
