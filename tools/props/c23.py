"""C23 — size accounting never fails on valid input.
Theorems: coq/C23/Props.v (for every consistent combination of value flags x output kind x pack-relative-relocs, layout's
reservation, the GOT/PLT slots it addresses and the writer's consumption agree — a finite domain decided by computation
and lifted) and coq/C09/Props.v C23_relative_relocation_space_matches (RELR vs RELA per relocation site).
Tie: (T2, layout side) libwild's own allocate_resolution through verif_hooks::elf::allocate_resolution on every flag
combination the model ranges over, compared with C23.Model.alloc; (writer side + everything else) a matrix of real links —
TLS access models x symbol kinds (defined default/hidden, undefined weak default/hidden, from a shared library), function
references (call, PLT, GOT, address in data, IFUNC), output kinds, relax on/off, and the options that change generated
sections (pack-relative-relocs, hash-style, build-id, eh-frame-hdr, strip, -z now) — with GNU ld as the validity oracle:
a link GNU ld accepts must not make wild fail with an allocation error."""
from wvlib import *
import tempfile, shutil, itertools

TRUSTED = [
    "Coq 8.16.1 kernel incl. vm_compute; axioms: none",
    "C23/Model.v transcribes allocate_resolution, create_resolution and process_resolution by hand; the layout side is tied to the compiled function exhaustively, the writer side and the `consistent` "
    "invariants (which flag combinations layout produces) only through the link matrix — a flag combination that the matrix does not reach is covered by the theorem only if the invariants are right",
    "other size pairs (.gnu.hash/.hash words: C08; .eh_frame_hdr entries: C10; symtab/strtab/dynsym) are exercised by the link matrix only",
    "GNU ld 2.40 is the oracle for `valid input`",
]

IMPORTS = """From Coq Require Import NArith List Bool. Import ListNotations.
From WV Require Import C23.Model C23.Proofs.
Open Scope N_scope.
Definition b (n : N) : bool := negb (n =? 0).
Definition al (bits k r : N) : list N :=
  let f := mk (N.testbit bits 0) (N.testbit bits 1) (N.testbit bits 2) (N.testbit bits 3) (N.testbit bits 7) (N.testbit bits 8)
              (N.testbit bits 9) (N.testbit bits 10) (N.testbit bits 11) (N.testbit bits 12) (N.testbit bits 14) in
  let c := alloc f k (b r) in [c_got c * 8; c_plt c * 16; c_relaplt c * 24; c_gen c * 24; c_rel c * 24; c_relr c * 8].
"""
FLAG_BITS = [0, 1, 2, 3, 7, 8, 9, 10, 11, 12, 14]

TLS_KINDS = {
    "def": ".section .tdata,\"awT\",@progbits\n.globl tv\n.type tv,@tls_object\ntv: .quad 7\n",
    "defhid": ".section .tdata,\"awT\",@progbits\n.globl tv\n.hidden tv\n.type tv,@tls_object\ntv: .quad 7\n",
    "weak": ".weak tv\n.type tv,@tls_object\n",
    "weakhid": ".weak tv\n.hidden tv\n.type tv,@tls_object\n",
    "lib": "",
}
TLS_ACCESS = {
    "gd": " .byte 0x66\n leaq tv@tlsgd(%rip),%rdi\n .value 0x6666\n rex64 call __tls_get_addr@PLT\n",
    "ld": " leaq tv@tlsld(%rip),%rdi\n call __tls_get_addr@PLT\n leaq tv@dtpoff(%rax),%rax\n",
    "ie": " movq tv@gottpoff(%rip),%rax\n",
    "desc": " leaq tv@tlsdesc(%rip),%rax\n call *tv@tlscall(%rax)\n",
    "ie+gd": " movq tv@gottpoff(%rip),%rax\n .byte 0x66\n leaq tv@tlsgd(%rip),%rdi\n .value 0x6666\n rex64 call __tls_get_addr@PLT\n",
    "all": " movq tv@gottpoff(%rip),%rax\n .byte 0x66\n leaq tv@tlsgd(%rip),%rdi\n .value 0x6666\n rex64 call __tls_get_addr@PLT\n leaq tv@tlsdesc(%rip),%rax\n call *tv@tlscall(%rax)\n",
}
FN_KINDS = {
    "def": ".text\n.globl fn\n.type fn,@function\nfn: ret\n",
    "defhid": ".text\n.globl fn\n.hidden fn\n.type fn,@function\nfn: ret\n",
    "weak": ".weak fn\n",
    "ifunc": ".text\n.globl fn\n.type fn,@gnu_indirect_function\nfn: lea target(%rip),%rax\n ret\ntarget: ret\n",
    "lib": "",
}
FN_ACCESS = {
    "plt": " call fn@PLT\n",
    "got": " call *fn@GOTPCREL(%rip)\n",
    "plt+got": " call fn@PLT\n movq fn@GOTPCREL(%rip),%rax\n",
    "data": ".data\n .quad fn\n.text\n",
    "plt+got+data": " call fn@PLT\n movq fn@GOTPCREL(%rip),%rax\n.data\n .quad fn\n.text\n",
}
OUT_KINDS = {"exe": [], "pie": ["-pie"], "shared": ["-shared"], "static-pie": ["-static", "-pie"]}
OPTION_SETS = [[], ["-z", "pack-relative-relocs"], ["--hash-style=sysv"], ["--hash-style=both", "--build-id"], ["--eh-frame-hdr", "--strip-all"], ["-z", "now", "--no-relax"], ["--no-relax"],
               ["--strip-debug", "--build-id=sha1", "-z", "pack-relative-relocs", "--hash-style=gnu"]]
ALLOC_WORDS = ("allocat", "didn't use up", "validate_empty", "insufficient")


# unwind information the link has to size and write: none; ordinary frames; a frame for an EMPTY section that is kept
# (what a function whose body is __builtin_unreachable() compiles to); frames of two kinds (two CIEs) with a dropped one between
EH_KINDS = [
    ("", ""),
    (" call ehf1\n", '.section .text.ehf1,"ax",@progbits\n.globl ehf1\n.type ehf1,@function\nehf1:\n .cfi_startproc\n ret\n .cfi_endproc\n.size ehf1,.-ehf1\n'),
    (" mov never@GOTPCREL(%rip), %rax\n", '.section .text.never,"ax",@progbits\n.globl never\n.type never,@function\nnever:\n .cfi_startproc\n .cfi_endproc\n.size never,0\n'),
    (" call ehf3\n", '.section .text.ehf1,"ax",@progbits\n.globl ehf1\n.type ehf1,@function\nehf1:\n .cfi_startproc\n ret\n .cfi_endproc\n'
                      '.section .text.ehf2,"ax",@progbits\n.globl ehf2\n.type ehf2,@function\nehf2:\n .cfi_startproc\n .cfi_signal_frame\n ret\n .cfi_endproc\n'
                      '.section .text.ehf3,"ax",@progbits\n.globl ehf3\n.type ehf3,@function\nehf3:\n .cfi_startproc\n ret\n .cfi_endproc\n'),
]


def run(chk, replay=None):
    coq = coq_build(["C09", "C23"], ["C23/Props.v"])
    chk.add_coq(coq)
    ok, out, binp = harness_build(False)
    okw, outw, wild = wild_build()
    if not ok or not okw:
        chk.tie_break("harness / wild does not build against /repo", (out + outw)[-3000:])
        return chk.finish(TRUSTED)
    rng = chk.rng
    stats = {"alloc_cases": 0, "alloc_mismatch": 0, "links": 0, "ld_accepts": 0, "wild_fails_other": 0, "allocation_errors": 0}
    # ---- (1) layout side, exhaustive over the flag bits the model ranges over (sampled in the quick tier)
    combos = []
    for mask in range(1 << len(FLAG_BITS)):
        bits = sum(1 << FLAG_BITS[i] for i in range(len(FLAG_BITS)) if mask >> i & 1)
        for k in range(6):
            for r in (0, 1):
                combos.append((bits, k, r))
    if chk.tier == "quick":
        rng.shuffle(combos)
        combos = combos[:4000]
    res = run_impl(binp, "c23", [f"{bits} {k} {r}" for bits, k, r in combos])
    items = [f"al {bits} {k} {r}" for bits, k, r in combos]
    per = (len(items) + NCPU - 1) // NCPU
    bodies = ["Eval vm_compute in [\n" + ";\n".join(items[j * per:(j + 1) * per]) + "].\n" for j in range(NCPU) if items[j * per:(j + 1) * per]]
    mres = []
    okm = True
    for rc, o in coq_eval_sharded("c23", IMPORTS, bodies, timeout=900):
        if rc != 0:
            chk.tie_break("model evaluation failed (coqc)", o[-1500:])
            okm = False
            continue
        mres += parse_coq_value(o)
    if okm and len(mres) == len(combos):
        for (bits, k, r), impl, m in zip(combos, res, mres):
            stats["alloc_cases"] += 1
            if impl == "PANIC" or [int(x) for x in impl.split()] != m:
                stats["alloc_mismatch"] += 1
                chk.tie_break("correspondence C23.alloc: allocate_resolution differs from the model", {"flag_bits": bits, "output_kind": k, "relr": r, "impl": impl, "model": m})
    elif okm:
        chk.tie_break("model evaluation: wrong number of answers", {"items": len(items), "answers": len(mres)})
    # ---- (2) the link matrix
    d = tempfile.mkdtemp(prefix="c23")
    try:
        open(d + "/lib.s", "w").write(".text\n.globl fn\n.type fn,@function\nfn: ret\n.globl __tls_get_addr\n.type __tls_get_addr,@function\n__tls_get_addr: ret\n"
                                      ".section .tdata,\"awT\",@progbits\n.globl tv\n.type tv,@tls_object\ntv: .quad 9\n")
        open(d + "/tga.s", "w").write(".text\n.globl __tls_get_addr\n.type __tls_get_addr,@function\n__tls_get_addr: ret\n")
        sh(f"cd {d} && as --64 lib.s -o lib.o && ld -shared lib.o -o libt.so && as --64 tga.s -o tga.o", timeout=60)
        matrix = list(itertools.product(TLS_KINDS, TLS_ACCESS, FN_KINDS, FN_ACCESS, OUT_KINDS, range(len(OPTION_SETS)), range(len(EH_KINDS))))
        if replay:
            matrix = [tuple(c) if len(c) == 7 else tuple(c) + (0,) for c in json.load(open(replay))["replay"]["cases"]]
        else:
            rng.shuffle(matrix)
            matrix = matrix[:150 if chk.tier == "quick" else 4000]
        from concurrent.futures import ThreadPoolExecutor

        def work(ix_m):
            ix, (tk, ta, fk, fa, ok_, oi, eh) = ix_m
            src = (".text\n.globl _start\n.type _start,@function\n_start:\n" + TLS_ACCESS[ta] + FN_ACCESS[fa] + EH_KINDS[eh][0] + " ret\n" + TLS_KINDS[tk] + FN_KINDS[fk] + EH_KINDS[eh][1])
            open(f"{d}/p{ix}.s", "w").write(src)
            rc, o = sh(f"cd {d} && as --64 p{ix}.s -o p{ix}.o", timeout=60)
            if rc != 0:
                return (ix_m[1], "as", o[-200:], "")
            uses_lib = tk == "lib" or fk == "lib"
            static = ok_ in ("exe", "static-pie") and not uses_lib
            args = [f"p{ix}.o"] + (["libt.so"] if uses_lib or not static else []) + (["tga.o"] if static and ok_ != "shared" else []) + OUT_KINDS[ok_] + OPTION_SETS[oi]
            if "-static" in args and uses_lib:
                return (ix_m[1], "skip", "", "")
            rcl, ol = sh(f"cd {d} && timeout 60 ld {' '.join(args)} -o l{ix}.out 2>&1", timeout=90)
            if rcl != 0:
                return (ix_m[1], "ld-rejects", ol[-200:], "")
            rcw, ow = sh(f"cd {d} && timeout 60 {wild} {' '.join(args)} -o w{ix}.out 2>&1", timeout=90)
            for f in (f"p{ix}.s", f"p{ix}.o", f"l{ix}.out", f"w{ix}.out"):
                try:
                    os.remove(f"{d}/{f}")
                except OSError:
                    pass
            return (ix_m[1], "ok" if rcw == 0 else "wild-fails", ow[-600:], " ".join(args))
        with ThreadPoolExecutor(max_workers=8) as ex:
            results = list(ex.map(work, list(enumerate(matrix))))
        other = {}
        for m, status, msg, args in results:
            if status in ("as", "skip"):
                continue
            stats["links"] += 1
            if status == "ld-rejects":
                continue
            stats["ld_accepts"] += 1
            if status == "wild-fails":
                if any(w in msg.lower() for w in ALLOC_WORDS):
                    stats["allocation_errors"] += 1
                    chk.violation(f"GNU ld links it, wild fails with an allocation error: `{args}` (TLS symbol {m[0]} accessed {m[1]}, function {m[2]} accessed {m[3]}): {msg.strip()[-260:]}",
                                  {"cases": [list(m)], "args": args, "message": msg})
                else:
                    stats["wild_fails_other"] += 1
                    key = re.sub(r"[0-9a-fx#()]+", "", msg.strip().splitlines()[0] if msg.strip() else "")[:80]
                    other[key] = other.get(key, 0) + 1
    finally:
        shutil.rmtree(d, ignore_errors=True)
    chk.cov.update({
        "evaluations": stats["alloc_cases"] + stats["links"], "distinct_nontrivial": stats["ld_accepts"],
        "rule": "layout side: flag bits {ABSOLUTE, DYNAMIC, IFUNC, NON_INTERPOSABLE, GOT, PLT, GOT_TLS_MODULE/OFFSET/DESCRIPTOR, EXPORT_DYNAMIC, IFUNC_GOT_FOR_ADDRESS} x 6 output kinds x RELR "
                "(exhaustive in the thorough tier); link matrix: 5 TLS symbol kinds x 6 access sequences x 5 function kinds x 5 reference kinds x {exe, pie, shared, static-pie} x 8 option sets x 4 kinds of unwind information (none, a frame, a frame for an empty kept section, two CIEs), sampled; "
                "non-trivial = links GNU ld accepts",
        "exhaustive": chk.tier != "quick",
        "stats": stats, "wild_other_failures": other,
    })
    return chk.finish(TRUSTED)
