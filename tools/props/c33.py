"""C33 — --wrap redirects references exactly as GNU ld does.
Theorems: coq/C33/Props.v (wild's sequential name-table rewrite = GNU ld's one-step renaming of undefined references
for every table and every duplicate-free list of wrapped base names whose wrappers exist; refutations outside).
Tie T2 at link level: generated programs (definitions of S / __wrap_S / __real_S in objects, archive members, a shared
library or nowhere; references from other objects and from the defining object) linked by wild and by GNU ld and
RUN; every call site prints the id of the function it reached.  wild vs model, ld vs spec, wild vs ld."""
from wvlib import *
import tempfile, shutil

TRUSTED = [
    "Coq 8.16.1 kernel incl. vm_compute; axioms: none",
    "spec = GNU ld's documented --wrap rule as a one-step renaming of undefined references (C33/Model.v gnu_resolve), validated on every run against GNU ld 2.40 on the generated programs",
    "the name table holds every defined global of every input incl. unloaded archive members and shared libraries (wild parses all members up front); symbol versions and LTO are outside the generated programs",
    "observation = which function body runs at each call site (one byte per call site on stdout), on this x86-64 host",
]

IMPORTS = """From Coq Require Import NArith List Bool. Import ListNotations.
From WV Require Import C33.Model.
Open Scope N_scope.
Definition B := Base. Definition Wr (n : N) := Wrap (Base n). Definition Re (n : N) := Real (Base n).
Definition enc (o : option N) : N := match o with Some v => v | None => 0 end.
Definition run (defs : list (name * N)) (ws : list name) (sites : list (list (name * N) * name)) :=
  let t := of_list defs in
  (map (fun s => enc (bind (wild_resolve t ws) (of_list (fst s)) (snd s))) sites,
   map (fun s => enc (bind (gnu_resolve t ws) (of_list (fst s)) (snd s))) sites).
"""

# names that contain one another (afn, rafn, xrafn), given in either order on the command line
BASES = ["a", "ra", "xra"]


def nm(kind, b):
    return {"B": b + "fn", "W": "__wrap_" + b + "fn", "R": "__real_" + b + "fn"}[kind]


def gen_program(rng, odd):
    """dict: files (name -> list of (symbol, id)), archives, so, wraps, sites [(file or 'main', kind, base)]"""
    nid = [0]

    def new_id():
        nid[0] += 1
        return nid[0]
    files = {}            # object name -> {"defs": [(kind, base, id)], "int": [(kind, base)]}
    place = {}            # object name -> 'obj' | 'arch' | 'so'
    wraps = []
    sites = []
    chosen = BASES[:rng.randrange(1, 4)]
    rng.shuffle(chosen)
    for bi, b in enumerate(chosen):
        wrapped = rng.random() < 0.8
        if wrapped:
            wraps.append(b)
            if odd and rng.random() < 0.25:
                wraps.append(b)           # --wrap given twice
        dplace = rng.choice(["obj", "obj", "obj", "arch", "so", "none"] if not odd else ["obj", "arch", "so", "none", "none"])
        wplace = rng.choice(["obj", "obj", "arch"]) if (not odd or rng.random() < 0.5) else "none"
        if not wrapped and rng.random() < 0.5:
            wplace = "none"
        rplace = "obj" if (odd and rng.random() < 0.2) else "none"
        if dplace != "none":
            o = f"d{b}"
            files[o] = {"defs": [("B", b, new_id())], "int": []}
            place[o] = dplace
            if rng.random() < 0.7:
                files[o]["int"].append(("B", b))
                sites.append((o, "B", b))
        if wplace != "none":
            o = f"w{b}"
            files[o] = {"defs": [("W", b, new_id())], "int": []}
            place[o] = wplace
            if rng.random() < 0.7 and (dplace != "none" or odd):
                files[o]["int"].append(("R", b))           # the wrapper object refers to __real_S
                sites.append((o, "R", b))
        if rplace != "none":
            o = f"r{b}"
            files[o] = {"defs": [("R", b, new_id())], "int": []}
            place[o] = "obj"
        if rng.random() < 0.9:
            sites.append(("main", "B", b))
        if wplace != "none" and rng.random() < 0.4:
            sites.append(("main", "W", b))
        if rng.random() < (0.3 if dplace != "none" else 0.1):
            sites.append(("main", "R", b))
    if not sites:
        sites.append(("main", "B", "a"))
    return {"files": files, "place": place, "wraps": wraps, "sites": sites}


def build(d, p):
    files, place = p["files"], p["place"]
    for o, f in files.items():
        src = [".text"]
        for kind, b, i in f["defs"]:
            src += [f".globl {nm(kind, b)}", f".type {nm(kind, b)},@function", f"{nm(kind, b)}:", f" mov ${i}, %eax", " ret"]
        for k, (kind, b) in enumerate(f["int"]):
            callee = nm(kind, b) + ("@PLT" if place[o] == "so" else "")
            src += [f".globl int_{o}_{k}", f".type int_{o}_{k},@function", f"int_{o}_{k}:", f" call {callee}", " ret"]
        open(f"{d}/{o}.s", "w").write("\n".join(src) + "\n")
        rc, out = sh(f"cd {d} && as --64 {o}.s -o {o}.o", timeout=60)
        if rc != 0:
            return None, out
    main = [".text", ".globl _start", "_start:"]
    cnt = {}
    for (o, kind, b) in p["sites"]:
        if o == "main":
            main.append(f" call {nm(kind, b)}")
        else:
            k = cnt.get(o, 0)
            cnt[o] = k + 1
            main.append(f" call int_{o}_{k}")
        main += [" mov %al, buf(%rip)", " mov $1, %eax", " mov $1, %edi", " lea buf(%rip), %rsi", " mov $1, %edx", " syscall"]
    main += [" mov $60, %eax", " xor %edi, %edi", " syscall", ".bss", "buf: .skip 8"]
    open(f"{d}/main.s", "w").write("\n".join(main) + "\n")
    rc, out = sh(f"cd {d} && as --64 main.s -o main.o", timeout=60)
    if rc != 0:
        return None, out
    args = ["main.o"]
    sos = [o for o in files if place[o] == "so"]
    for o in files:
        if place[o] == "obj":
            args.append(f"{o}.o")
    archs = [o for o in files if place[o] == "arch"]
    if archs:
        args.append("--start-group")        # archive ORDER is C03's subject, not this property's
        for o in archs:
            sh(f"cd {d} && rm -f lib{o}.a && ar rcs lib{o}.a {o}.o", timeout=60)
            args.append(f"lib{o}.a")
        args.append("--end-group")
    if sos:
        # the shared library is built by GNU ld for both links; its own references (if any) stay undefined in it
        rc, out = sh(f"cd {d} && ld -shared -o libdyn.so {' '.join(o + '.o' for o in sos)}", timeout=60)
        if rc != 0:
            return None, out
        args += ["libdyn.so", "--dynamic-linker", "/lib64/ld-linux-x86-64.so.2"]
    for w in p["wraps"]:
        args.append(f"--wrap={w}fn")
    return args, ""


def run_exe(d, exe):
    rc, out = sh(f"cd {d} && LD_LIBRARY_PATH={d} timeout 10 ./{exe} | od -An -v -tu1", timeout=20)
    if rc != 0:
        return None
    return [int(x) for x in out.split()]


def coq_name(kind, b):
    i = BASES.index(b) + 1
    return {"B": f"B {i}", "W": f"Wr {i}", "R": f"Re {i}"}[kind]


def run(chk, replay=None):
    coq = coq_build(["C33"], ["C33/Props.v"])
    chk.add_coq(coq)
    okw, outw, wild = wild_build()
    if not okw:
        chk.tie_break("wild does not build", outw[-2000:])
        return chk.finish(TRUSTED)
    rng = chk.rng
    progs = []
    if replay:
        progs = json.load(open(replay))["replay"]["programs"]
    else:
        cp = os.path.join(ROOT, "corpus", "C33.json")
        if os.path.exists(cp):
            progs += json.load(open(cp))
        n = 80 if chk.tier == "quick" else 600
        for k in range(n):
            progs.append(gen_program(rng, odd=(k % 4 == 3)))
    for p in progs:
        p["sites"] = [tuple(s) for s in p["sites"]]
        for f in p["files"].values():
            f["defs"] = [tuple(x) for x in f["defs"]]
            f["int"] = [tuple(x) for x in f["int"]]
    known = {k["id"] for k in chk.known}
    stats = {"programs": len(progs), "sites": 0, "wrapped_sites": 0, "both_link": 0, "both_fail": 0, "wild_eq_ld": 0, "model_mismatch": 0, "spec_mismatch": 0,
             "with_archive": 0, "with_shared": 0, "wrapper_missing": 0, "dup_wrap": 0}
    d = tempfile.mkdtemp(prefix="c33")
    obs = []
    try:
        for pi, p in enumerate(progs):
            args, err = build(d, p)
            if args is None:
                chk.tie_break("a generated program does not assemble / its shared library does not link", err[-500:])
                obs.append(None)
                continue
            rcw, ow = sh(f"cd {d} && rm -f out.wild && timeout 60 {wild} {' '.join(args)} -o out.wild", timeout=90)
            rcl, ol = sh(f"cd {d} && rm -f out.ld && timeout 60 ld {' '.join(args)} -o out.ld", timeout=90)
            rw = run_exe(d, "out.wild") if rcw == 0 else "FAIL"
            rl = run_exe(d, "out.ld") if rcl == 0 else "FAIL"
            obs.append((rw, rl, ow[-300:], ol[-300:]))
    finally:
        shutil.rmtree(d, ignore_errors=True)
    items = []
    idx = []
    for pi, p in enumerate(progs):
        if obs[pi] is None:
            continue
        defs = [(coq_name(kind, b), i) for f in p["files"].values() for (kind, b, i) in f["defs"]]
        ws = [coq_name("B", w) for w in p["wraps"]]
        sites = []
        for (o, kind, b) in p["sites"]:
            own = [] if o == "main" else [(coq_name(k2, b2), i) for (k2, b2, i) in p["files"][o]["defs"]]
            sites.append("([" + "; ".join(f"({n}, {i})" for n, i in own) + f"], {coq_name(kind, b)})")
        items.append("run [" + "; ".join(f"({n}, {i})" for n, i in defs) + "] [" + "; ".join(ws) + "] [" + "; ".join(sites) + "]")
        idx.append(pi)
    mres = []
    if items:
        per = (len(items) + NCPU - 1) // NCPU
        bodies = ["Eval vm_compute in [\n" + ";\n".join(items[k * per:(k + 1) * per]) + "].\n" for k in range(NCPU) if items[k * per:(k + 1) * per]]
        okm = True
        for rc, out in coq_eval_sharded("c33", IMPORTS, bodies, timeout=600):
            if rc != 0:
                chk.tie_break("model evaluation failed (coqc)", out[-1500:])
                okm = False
                continue
            mres += parse_coq_value(out)
        if okm and len(mres) != len(items):
            chk.tie_break("model evaluation: wrong number of answers", {"items": len(items), "answers": len(mres)})
            mres = []
    samples = []
    for pi, m in zip(idx, mres):
        p = progs[pi]
        rw, rl, ow, ol = obs[pi]
        mw, mg = m
        exp_w = "FAIL" if 0 in mw else mw
        exp_g = "FAIL" if 0 in mg else mg
        places = p["place"]
        defined = {(kind, b) for f in p["files"].values() for (kind, b, i) in f["defs"]}
        missing = any(("W", w) not in defined for w in p["wraps"])
        dup = len(set(p["wraps"])) != len(p["wraps"])
        real_only = any(("B", w) not in defined and ("R", w) in defined for w in p["wraps"])
        stats["sites"] += len(p["sites"])
        stats["wrapped_sites"] += sum(1 for (o, kind, b) in p["sites"] if b in p["wraps"] and kind in ("B", "R"))
        stats["with_archive"] += int("arch" in places.values())
        stats["with_shared"] += int("so" in places.values())
        stats["wrapper_missing"] += int(missing)
        stats["dup_wrap"] += int(dup)
        rep = {"programs": [p], "wild": rw, "ld": rl, "model_wild": exp_w, "model_gnu": exp_g, "wild_msg": ow if rw == "FAIL" else "", "ld_msg": ol if rl == "FAIL" else ""}
        if rw is None or rl is None:
            chk.tie_break("a linked program crashed when run", rep)
            continue
        if rw != exp_w:
            stats["model_mismatch"] += 1
            chk.tie_break("correspondence C33.wild_resolve: wild's binding differs from the model", rep)
        if rl != exp_g:
            stats["spec_mismatch"] += 1
            chk.tie_break("spec validation C33.gnu_resolve: GNU ld's binding differs from the specification", rep)
        if rw == "FAIL" and rl == "FAIL":
            stats["both_fail"] += 1
        if rw != "FAIL" and rl != "FAIL":
            stats["both_link"] += 1
        if rw == rl:
            stats["wild_eq_ld"] += 1
        else:
            sites_s = ", ".join(f"{o}->{nm(kind, b)}" for (o, kind, b) in p["sites"])
            what = (f"--wrap={','.join(p['wraps'])}: call sites [{sites_s}] reach {rw} with wild, {rl} with GNU ld "
                    f"(definitions {sorted((nm(k, b), i, places[o]) for o, f in p['files'].items() for (k, b, i) in f['defs'])})")
            if missing and "C33-wrapper-missing" in known:
                chk.known_hit("C33-wrapper-missing", rep)
            elif dup and "C33-wrap-given-twice" in known:
                chk.known_hit("C33-wrap-given-twice", rep)
            elif real_only and "C33-real-defined-original-missing" in known:
                chk.known_hit("C33-real-defined-original-missing", rep)
            else:
                chk.violation(what, rep)
        if len(samples) < 4 and p["wraps"]:
            samples.append({"wraps": p["wraps"], "sites": [f"{o}->{nm(k, b)}" for (o, k, b) in p["sites"]], "wild": rw, "ld": rl})
    chk.cov.update({
        "evaluations": stats["sites"], "distinct_nontrivial": stats["wrapped_sites"],
        "rule": "1-3 base functions; each defined in an object / archive member / shared library / nowhere, wrapper in an object / archive / nowhere, 80% wrapped; references to S, __wrap_S, "
                "__real_S from main, to __real_S from the wrapper's object and to S from its own defining object; every 4th program adds --wrap given twice, missing wrappers, "
                "a defined __real_S; non-trivial = call sites whose name is S or __real_S of a wrapped S",
        "stats": stats, "samples": samples,
    })
    return chk.finish(TRUSTED)
