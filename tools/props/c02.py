"""C02 — symbol references bind to the definition the ELF rules select.
Theorems: coq/C02/Props.v (loop invariant over all candidate lists).  Tie: (a) SymbolPrioritySelector through a hook,
exhaustive over candidate lists of length <= 4; (b) whole links through the wild binary: each candidate is its own
object / shared library, the winner is read back from the output."""
from wvlib import *
import elfread, tempfile, itertools, struct

TRUSTED = [
    "Coq 8.16.1 kernel incl. vm_compute; axioms: none",
    "model C02/Model.v: select_symbol + SymbolPrioritySelector::{consider,best} (symbol_db.rs); 'not loaded' = strength Undef; COMDAT membership is a flag of the candidate",
    "tie (a) hook verif_hooks::symbol_db::select wraps the real selector; the dynamic-skip / duplicate check / second pass of select_symbol are exercised only at link level (b)",
    "not modelled: which archive members are loaded (C03), visibility merging, symbol versions",
]
KINDS = [(0, 0), (1, 0), (2, 0), (3, 0), (4, 4), (4, 8), (4, 16)]
CSTR = {0: "Undef", 1: "Weak", 2: "Unique", 3: "Strong"}

IMPORTS = """From Coq Require Import NArith List Bool. Import ListNotations.
From WV Require Import C02.Model.
Definition C (d : bool) (s : strength) : cand := {| dyn := d; str := s; comdat := false |}.
Definition r2n (r : result) : list nat := match r with Ok i => [0; i] | DupErr a b => [1; a; b] end.
"""


def cstr(code, size):
    return f"(Common {size})" if code == 4 else CSTR[code]


def run(chk, replay=None):
    coq = coq_build(["C02"], ["C02/Props.v"])
    chk.add_coq(coq)
    ok, out, binp = harness_build(False)
    okw, outw, wild = wild_build()
    if not ok or not okw:
        chk.tie_break("harness/wild does not build against /repo", (out if not ok else outw)[-3000:])
        return chk.finish(TRUSTED)
    # ---------- (a) selector, exhaustive for n <= 4 (quick: n <= 3 + random 4/5)
    lists = []
    for n in range(1, 4):
        lists += list(itertools.product(KINDS, repeat=n))
    more = list(itertools.product(KINDS, repeat=4))
    if chk.tier == "thorough":
        lists += more
    else:
        lists += chk.rng.sample(more, 400)
    lines = ["s " + " ".join(f"{c}:{s}" for c, s in l) for l in lists]
    res = run_impl(binp, "c02", lines)
    items = []
    for l, r in zip(lists, res):
        cl = "[" + "; ".join(f"C false {cstr(c, s)}" for c, s in l) + "]"
        exp = f"[0; {r}]" if r != "-" else "[2]"
        items.append(f"(negb (list_beq nat Nat.eqb (match pass1 true {cl} {cl} 0 sel0 with inl s => match best s with Some i => [0; i] | None => [2] end | inr _ => [9] end) {exp}))")
    # evaluate in shards: count mismatching indices
    bodies = []
    per = (len(items) + NCPU - 1) // NCPU
    for k in range(NCPU):
        part = items[k * per:(k + 1) * per]
        bodies.append("Scheme Equality for list.\nEval vm_compute in filter (fun x => snd x) (combine (seq 0 %d) [%s]).\n" % (len(part), ";\n".join(part)))
    mism_a = 0
    for k, (rc, out) in enumerate(coq_eval_sharded("c02a", IMPORTS, bodies)):
        if rc != 0:
            chk.tie_break("model evaluation failed (coqc)", out[-1500:])
            continue
        v = parse_coq_value(out)
        for m in v:
            mism_a += 1
            chk.tie_break("selector model/implementation disagree", {"cands": lists[k * per + m[0]], "impl": res[k * per + m[0]]})
    # property predicate (a): strong first, else first largest common, else first weak/unique
    for l, r in zip(lists, res):
        exp = None
        strong = [i for i, (c, s) in enumerate(l) if c == 3]
        commons = [(s, -i) for i, (c, s) in enumerate(l) if c == 4]
        weak = [i for i, (c, s) in enumerate(l) if c in (1, 2)]
        if strong:
            exp = strong[0]
        elif commons:
            exp = -max(commons)[1]
        elif weak:
            exp = weak[0]
        if (r == "-" and exp is not None) or (r != "-" and int(r) != exp):
            chk.violation(f"selector picks {r} for candidates {l}; ELF rules select {exp}", {"cands": l})

    # ---------- (b) whole links
    d = tempfile.mkdtemp(prefix="wv-c02-")
    links = 0
    nontrivial = 0
    samples = []
    link_items = []
    link_meta = []
    hidden_items, hidden_meta = [], []
    try:
        OBJ = [("strong", 3, 0), ("weak", 1, 0), ("unique", 2, 0), ("common", 4, 8), ("common", 4, 32)]
        DSO = [("dstrong", 3, 0), ("dweak", 1, 0)]
        cand_files = {}

        def mk(kind, size, marker, idx):
            key = (kind, size, marker)
            if key in cand_files:
                return cand_files[key]
            base = f"{d}/c{len(cand_files)}"
            if kind in ("strong", "dstrong"):
                src = f".globl sym\n.data\n.type sym,@object\n.size sym,4\nsym: .long {marker}\n"
            elif kind in ("weak", "dweak"):
                src = f".weak sym\n.data\n.type sym,@object\n.size sym,4\nsym: .long {marker}\n"
            elif kind == "unique":
                src = f".data\n.type sym,@gnu_unique_object\n.size sym,4\nsym: .long {marker}\n"
            else:
                src = f".comm sym,{size},8\n"
            open(base + ".s", "w").write(src)
            sh(f"as -o {base}.o {base}.s", check=True)
            path = base + ".o"
            if kind.startswith("d"):
                sh(f"ld -shared -o {base}.so {base}.o", check=True)
                path = base + ".so"
            cand_files[key] = path
            return path
        open(f"{d}/main.s", "w").write(".globl _start\n.text\n_start: mov $60,%eax\n xor %edi,%edi\n syscall\n.data\nref: .quad sym\n")
        sh(f"as -o {d}/main.o {d}/main.s", check=True)
        combos = []
        pool = OBJ + DSO
        for n in (1, 2, 3):
            for combo in itertools.product(range(len(pool)), repeat=n):
                combos.append(combo)
        if chk.tier == "quick":
            combos = [c for c in combos if len(c) < 3] + chk.rng.sample([c for c in combos if len(c) == 3], 60)
        for combo in combos:
            cands = [pool[i] for i in combo]
            files = [mk(k, sz, 0x1100 + 17 * j, j) for j, (k, code, sz) in enumerate(cands)]
            outp = f"{d}/out"
            rc, o = sh(f"{wild} --no-gc-sections -o {outp} {d}/main.o " + " ".join(files), timeout=60)
            links += 1
            coqc = "[" + "; ".join(f"C {'true' if k.startswith('d') else 'false'} {cstr(code, sz)}" for k, code, sz in cands) + "]"
            # model candidate 0 is main.o's undefined reference: select_symbol sees first_id = the first DEFINITION in the
            # name table, undefined references are not candidates
            if rc != 0:
                obs = ["err"]
            else:
                e = elfread.Elf(outp)
                syms = [s for s in e.symbols(".symtab") if s["name"] == "sym"]
                dsyms = [s for s in e.symbols(".dynsym") if s["name"] == "sym"]
                s0 = syms[0] if syms else None
                if s0 is None or s0["shndx"] == 0:
                    obs = ["dyn"]
                else:
                    sec = e.shdrs[s0["shndx"]] if s0["shndx"] < len(e.shdrs) else None
                    if sec is not None and sec["type"] == 8:
                        obs = ["common", s0["size"]]
                    else:
                        raw = e.read_va(s0["value"], 4)
                        obs = ["marker", struct.unpack("<I", raw)[0] if raw else -1]
            link_items.append(f"r2n (select false {coqc})")
            link_meta.append((combo, cands, obs, o[-300:] if rc != 0 else ""))
            if len(samples) < 5 and len(combo) == 3 and links % 9 == 0:
                samples.append({"link_order": [c[0] + (str(c[2]) if c[2] else "") for c in cands], "observed": obs})
        # the same with a HIDDEN (and a protected) reference: a shared library cannot satisfy it, so the choice is made among the
        # definitions from objects and archive members only, wherever the libraries stand on the command line (which archive
        # members get loaded is C03's subject: every candidate here is a plain file)
        for vis in ("hidden", "protected"):
            open(f"{d}/main_{vis}.s", "w").write(f".globl _start\n.{vis} sym\n.text\n_start: mov $60,%eax\n xor %edi,%edi\n syscall\n.data\nref: .quad sym\n")
            sh(f"as -o {d}/main_{vis}.o {d}/main_{vis}.s", check=True)
        hcombos = [c for c in combos if any(pool[i][0].startswith("d") for i in c) and any(not pool[i][0].startswith("d") for i in c)]
        if chk.tier == "quick":
            hcombos = chk.rng.sample(hcombos, min(len(hcombos), 40))
        for hi, combo in enumerate(hcombos):
            cands = [pool[i] for i in combo]
            vis = "hidden" if hi % 2 == 0 else "protected"
            files = []
            for j, (k, code, sz) in enumerate(cands):
                f_ = mk(k, sz, 0x1100 + 17 * j, j)
                files.append(f_)
            outp = f"{d}/outh"
            rc, o = sh(f"{wild} --no-gc-sections -o {outp} {d}/main_{vis}.o " + " ".join(files), timeout=60)
            links += 1
            reg = [(j, c) for j, c in enumerate(cands) if not c[0].startswith("d")]
            if rc != 0:
                obs = ["err"]
            else:
                e = elfread.Elf(outp)
                syms = [s_ for s_ in e.symbols(".symtab") if s_["name"] == "sym"]
                s0 = syms[0] if syms else None
                if s0 is None or s0["shndx"] == 0:
                    obs = ["dyn"]
                else:
                    sec = e.shdrs[s0["shndx"]] if s0["shndx"] < len(e.shdrs) else None
                    if sec is not None and sec["type"] == 8:
                        obs = ["common", s0["size"]]
                    else:
                        raw = e.read_va(s0["value"], 4)
                        obs = ["marker", struct.unpack("<I", raw)[0] if raw else -1]
            coqc = "[" + "; ".join(f"C false {cstr(code, sz)}" for j, (k, code, sz) in reg) + "]"
            hidden_items.append(f"r2n (select false {coqc})")
            hidden_meta.append((cands, reg, obs, vis, o[-300:] if rc != 0 else ""))
        # undefined references
        open(f"{d}/wk.s", "w").write(".globl _start\n.weak undef_weak\n.text\n_start: mov $60,%eax\n xor %edi,%edi\n syscall\n.data\nref: .quad undef_weak\n")
        sh(f"as -o {d}/wk.o {d}/wk.s", check=True)
        rc, o = sh(f"{wild} --no-gc-sections -o {d}/outw {d}/wk.o", timeout=60)
        links += 1
        if rc != 0:
            chk.violation("undefined weak reference in an executable is rejected", {"stderr": o[-300:]})
        else:
            e = elfread.Elf(f"{d}/outw")
            refs = [x for x in e.symbols(".symtab") if x["name"] == "ref"]
            raw = e.read_va(refs[0]["value"], 8) if refs else None
            if raw is None or struct.unpack("<Q", raw)[0] != 0:
                chk.violation("undefined weak reference does not resolve to zero", {})
        open(f"{d}/us.s", "w").write(".globl _start\n.text\n_start: mov $60,%eax\n xor %edi,%edi\n syscall\n.data\nref: .quad undef_strong\n")
        sh(f"as -o {d}/us.o {d}/us.s", check=True)
        rc, o = sh(f"{wild} --no-gc-sections -o {d}/outu {d}/us.o", timeout=60)
        links += 1
        if rc == 0:
            chk.violation("undefined non-weak reference in an executable is accepted", {})
    finally:
        shutil.rmtree(d, ignore_errors=True)
    rc, out = coq_eval(f"c02b_{os.getpid()}", "Eval vm_compute in [" + ";\n".join(link_items) + "].\n", IMPORTS, timeout=600)
    mism_b = 0
    if rc != 0:
        chk.tie_break("model evaluation failed (coqc)", out[-1500:])
    else:
        for (combo, cands, obs, err), m in zip(link_meta, parse_coq_value(out)):
            nontrivial += 1 if len(cands) > 1 else 0
            if m[0] == 1:
                exp = ["err"]
            else:
                k, code, sz = cands[m[1]]
                exp = ["dyn"] if k.startswith("d") else (["common", sz] if code == 4 else ["marker", 0x1100 + 17 * m[1]])
            if exp != obs:
                mism_b += 1
                # decide by the property text, independently of the model
                nd = [(j, c) for j, c in enumerate(cands) if not c[0].startswith("d")]
                strongs = [j for j, c in nd if c[1] == 3]
                why = None
                if len(strongs) >= 2 and obs != ["err"]:
                    why = "two strong definitions outside COMDAT groups are accepted"
                elif len(strongs) == 1 and obs != ["marker", 0x1100 + 17 * strongs[0]]:
                    why = "a strong definition does not win"
                elif not strongs and nd and obs == ["dyn"]:
                    why = "a shared-library definition overrides a definition from an object"
                elif not strongs and any(c[1] == 4 for j, c in nd):
                    big = max(c[2] for j, c in nd if c[1] == 4)
                    if obs != ["common", big]:
                        why = "the largest common does not win over smaller commons / weak definitions"
                elif not strongs and nd:
                    first = [j for j, c in nd if c[1] in (1, 2)][0]
                    if obs != ["marker", 0x1100 + 17 * first]:
                        why = "the first weak definition does not win among equals"
                rep = {"link_order": [c[0] + (str(c[2]) if c[2] else "") for c in cands], "observed": obs, "model": exp, "stderr": err}
                if why:
                    chk.violation(f"{why}: link order {rep['link_order']} gives {obs}", rep)
                else:
                    chk.tie_break("link-level model/implementation disagree", rep)
    if hidden_items:
        rc, out = coq_eval(f"c02h_{os.getpid()}", "Eval vm_compute in [" + ";\n".join(hidden_items) + "].\n", IMPORTS, timeout=600)
        if rc != 0:
            chk.tie_break("model evaluation failed (coqc, hidden references)", out[-1500:])
        else:
            for (cands, reg, obs, vis, err), m in zip(hidden_meta, parse_coq_value(out)):
                nontrivial += 1
                if m[0] == 1:
                    exp = ["err"]
                else:
                    j, (k, code, sz) = reg[m[1]]
                    exp = ["common", sz] if code == 4 else ["marker", 0x1100 + 17 * j]
                if exp != obs and not (exp[0] == "common" and obs[0] == "common" and obs[1] >= exp[1]):
                    rep = {"link_order": [c[0] + (str(c[2]) if c[2] else "") for c in cands], "reference": vis, "observed": obs, "model": exp, "stderr": err}
                    chk.violation(f"a {vis} reference does not bind to the definition chosen among the objects' definitions (shared libraries cannot satisfy it): "
                                  f"link order {rep['link_order']} gives {obs}, expected {exp}", rep)
    chk.cov.update({
        "evaluations": len(lists) + links, "distinct_nontrivial": nontrivial + sum(1 for l in lists if len(l) > 1),
        "rule": "(a) candidate lists over {undef, weak, unique, strong, common 4/8/16}: all lists of length <= 3 (+ all / 400 sampled of length 4) through the real selector; "
                "(b) links: main.o referencing `sym` + 1..3 candidate files from {strong, weak, unique, common 8, common 32 objects; strong, weak shared libraries} in every order "
                "(quick: all pairs + 60 sampled triples), winner read from the output (.symtab entry, section kind, marker bytes); non-trivial = more than one candidate",
        "selector_lists": len(lists), "links": links, "selector_mismatches": mism_a, "link_mismatches": mism_b, "samples": samples,
    })
    chk.assumptions = TRUSTED
    return chk.finish(TRUSTED)
