"""C24 — save-dir bundles replay to an identical output.
Theorems: coq/C24/Props.v (a POSIX shell reads the `exec` line of run-with back as exactly the recorded command, for
all argument bytes and all values of D and OUT; the old escaping is refuted).
Tie T2 against the real binary: generated link commands with hostile names (blanks, quotes, $, #, ;, &, (, *, tab,
backslash, non-ASCII) for objects, archives, thin archives and members, -T scripts, implicit INPUT() scripts, -L
directories, version scripts, in every argument form (-o x / -ox, -L d / -Ld, --opt=file, response files) are linked
with WILD_SAVE_DIR (itself a hostile path); the original inputs are then moved away and `run-with <wild>` is run from
another directory with OUT set: the output must be byte-identical.  The exec line of the real script is read by
C24.Model.read_words (in Coq) and by bash itself (printf instead of exec): both must give the recorded command with
copied inputs redirected into the bundle."""
from wvlib import *
import tempfile, shutil

TRUSTED = [
    "Coq 8.16.1 kernel incl. vm_compute; axioms: none",
    "C24.Model.read_words models the part of POSIX shell word reading that the script uses (single quotes, backslash, double-quoted $NAME, blank separation, backslash-newline); bash 5 is run on "
    "every generated script as a second reader",
    "which files are copied into the bundle and the rewriting of paths inside linker scripts (copy_file, make_linker_script_relative) are not modelled: they are covered by the byte-identical replay "
    "after the original inputs have been moved away",
    "response files are replayed end to end; the quoting of their contents is not modelled",
]

ODD = ["plain", "with space", "two  sp", "dollar$sign", "hash#tag", "quote'q", 'dq"x', "semi;colon", "amp&and", "paren(1)", "star*", "tab\tx", "bsl\\x", "uni-é", "eq=sign", "excl!", "back`tick", "pipe|x", "lt<gt>", "-dash", "~tilde"]


def gen_case(rng, d, odd):
    def nm(base, ext):
        pre = rng.choice(ODD) if odd and rng.random() < 0.7 else ""
        if pre.startswith("-"):
            pre = "x" + pre
        return (pre + " " + base if pre else base) + ext
    sub = (rng.choice(ODD[:12]).lstrip("-~") + " dir") if odd and rng.random() < 0.5 else "sub"
    os.makedirs(f"{d}/{sub}", exist_ok=True)
    argv, calls = [], []
    k = 0

    def asm(rel, body):
        open(f"{d}/tmp.s", "w").write(body)
        subprocess.run(["as", "--64", f"{d}/tmp.s", "-o", f"{d}/{rel}"], check=True)

    def fn():
        nonlocal k
        k += 1
        return f"fn{k}"
    for _ in range(rng.randrange(1, 4)):
        f = fn(); rel = nm(f, ".o"); asm(rel, f".globl {f}\n{f}: ret\n"); calls.append(f)
        argv.append(rng.choice([rel, f"./{rel}", f"{d}/{rel}"]))
    if rng.random() < 0.6:
        f = fn(); asm("m.o", f".globl {f}\n{f}: ret\n"); a = nm(f"lib{f}", ".a")
        subprocess.run(["ar", "rc", a, "m.o"], check=True, cwd=d); os.remove(f"{d}/m.o"); argv.append(a); calls.append(f)
    if rng.random() < 0.5:
        f = fn(); m = nm(f"thin{f}", ".o"); asm(m, f".globl {f}\n{f}: ret\n"); a = nm(f"libthin{f}", ".a")
        subprocess.run(["ar", "rcT", a, m], check=True, cwd=d); argv.append(a); calls.append(f)
    if rng.random() < 0.5:
        f = fn(); asm("m.o", f".globl {f}\n{f}: ret\n"); a = f"{sub}/lib{f}.a"
        subprocess.run(["ar", "rc", a, "m.o"], check=True, cwd=d); os.remove(f"{d}/m.o"); calls.append(f)
        argv += rng.choice([["-L", sub, f"-l{f}"], [f"-L{sub}", f"-l{f}"], [f"-L{d}/{sub}", "-l", f]])
    if rng.random() < 0.4:
        f = fn(); m = f"{sub}/inp{f}.o"; asm(m, f".globl {f}\n{f}: ret\n"); sc = nm(f"imp{f}", ".ld")
        open(f"{d}/{sc}", "w").write(f'INPUT("{m}")\n' if '"' not in m else f"INPUT({m})\n")
        if '"' in m and any(ch in m for ch in " ()$#;&*\t"):
            os.remove(f"{d}/{sc}")
        else:
            argv.append(sc); calls.append(f)
    if rng.random() < 0.4:
        sc = nm("layout", ".ld"); open(f"{d}/{sc}", "w").write("SECTIONS { .text : { *(.text .text.*) } }\n")
        argv += rng.choice([["-T", sc], [f"--script={sc}"]])
    shared = rng.random() < 0.4
    if rng.random() < 0.4:
        vs = f"{sub}/{nm('versions', '.map')}"; open(f"{d}/{vs}", "w").write("{ global: *; };\n")
        argv.append(f"--version-script={vs}")
    if rng.random() < 0.5:
        argv += rng.choice([["--defsym", "my_sym=0x10"], ["-z", "max-page-size=0x4000"], ["--build-id=0xabcdef"], ["-soname", "lib with space.so"] if shared else ["--gc-sections"],
                            ["--entry=_start"], ["-e", "_start"]])
    main = nm("main", ".o")
    asm(main, ".globl _start\n_start:\n" + "".join(f" call {c}\n" for c in calls) + " ret\n")
    argv.insert(rng.randrange(0, 2), main)
    if shared:
        argv.append("-shared")
    out = nm("output", ".bin")
    oform = rng.choice([["-o", out], [f"-o{out}"]])
    argv[rng.randrange(0, len(argv) + 1):0] = []
    pos = rng.choice([0, len(argv)])
    argv[pos:pos] = oform
    rsp = None
    if rng.random() < 0.3 and not odd:
        cut = rng.randrange(0, len(argv))
        tail = [a for a in argv[cut:]]
        if (cut == 0 or argv[cut - 1] not in ("-o", "-L", "-l", "-T", "-e", "-z", "--defsym", "-soname")) and not any(a.startswith("-o") for a in tail) and all(" " not in a and "'" not in a and '"' not in a and "\\" not in a for a in tail):
            open(f"{d}/args.rsp", "w").write("\n".join(tail) + "\n")
            argv = argv[:cut] + ["@args.rsp"]
            rsp = tail
    try:
        os.remove(f"{d}/tmp.s")
    except OSError:
        pass
    return argv, out, rsp


def run(chk, replay=None):
    coq = coq_build(["C24"], ["C24/Props.v"])
    chk.add_coq(coq)
    okw, outw, wild = wild_build()
    if not okw:
        chk.tie_break("wild does not build", outw[-2000:])
        return chk.finish(TRUSTED)
    rng = chk.rng
    seeds = [rng.randrange(1 << 30) for _ in range(40 if chk.tier == "quick" else 400)]
    if replay:
        seeds = json.load(open(replay))["replay"]["seeds"]
    known = {k["id"] for k in chk.known}
    stats = {"links": 0, "accepted": 0, "rejected": 0, "odd": 0, "replays": 0, "identical": 0, "with_rsp": 0, "words_checked": 0, "model_mismatch": 0, "reject_reasons": {}}
    items, expect = [], []
    base = tempfile.mkdtemp(prefix="c24")
    try:
        for seed in seeds:
            r = random.Random(seed)
            odd = r.random() < 0.7
            work = f"{base}/w{seed}" + (" " + r.choice(ODD[:8]) if odd else "")
            d = f"{work}/src"
            os.makedirs(d)
            try:
                argv, out, rsp = gen_case(r, d, odd)
            except subprocess.CalledProcessError as ex:
                chk.tie_break("could not build the inputs of a generated case", {"seeds": [seed], "msg": str(ex)[:300]})
                continue
            save = f"{work}/save" + (" " + r.choice(ODD[:6]) if odd else "")
            rep = {"seeds": [seed], "argv": argv, "save_dir": save}
            env = dict(os.environ, WILD_SAVE_DIR=save)
            p = subprocess.run([wild] + argv, cwd=d, env=env, stdout=subprocess.PIPE, stderr=subprocess.STDOUT, text=True, timeout=120)
            stats["links"] += 1
            if p.returncode != 0:
                stats["rejected"] += 1
                key = re.sub(r"`[^`]*`", "`..`", p.stdout.strip().splitlines()[0][:80]) if p.stdout.strip() else "?"
                stats["reject_reasons"][key] = stats["reject_reasons"].get(key, 0) + 1
                continue
            stats["accepted"] += 1
            stats["odd"] += int(odd)
            stats["with_rsp"] += int(rsp is not None)
            orig = open(f"{d}/{out}", "rb").read()
            script = f"{save}/run-with"
            if not os.path.exists(script):
                chk.violation(f"WILD_SAVE_DIR set and no run-with script written (seed {seed})", rep)
                continue
            # the originals go away: the bundle must be self-contained
            os.rename(d, f"{work}/moved-away")
            elsewhere = f"{work}/else where"
            os.makedirs(elsewhere)
            newout = f"{elsewhere}/re play.bin"
            q = subprocess.run(["bash", script, wild], cwd=elsewhere, env=dict(os.environ, OUT=newout), stdout=subprocess.PIPE, stderr=subprocess.STDOUT, text=True, timeout=120)
            stats["replays"] += 1
            if q.returncode != 0 or not os.path.exists(newout):
                chk.violation(f"replaying the save-dir bundle fails (seed {seed}, exit {q.returncode}): {q.stdout.strip()[-200:]!r}; command was {argv}", dict(rep, replay_output=q.stdout[-600:]))
            elif open(newout, "rb").read() != orig:
                chk.violation(f"the replayed output differs from the original output (seed {seed}); command was {argv}", rep)
            else:
                stats["identical"] += 1
            # the exec line as the shell reads it
            text = open(script, "rb").read()
            i = text.find(b'exec "$@"')
            if i < 0:
                chk.tie_break("run-with has no `exec \"$@\"` line", rep)
                continue
            body = text[i + len(b'exec "$@"'):]
            j = body.find(b"\n# Original output file:")
            if j >= 0:
                body = body[:j]
            body += b"\n"
            if rsp is None and len(body) < 4000:
                pr = subprocess.run(["bash", "-c", 'D="$1"; OUT="$2"; eval "printf \'%s\\\\0\' $3"', "sh", save, newout, body.decode("utf-8", "surrogateescape").rstrip("\n")],
                                    stdout=subprocess.PIPE, stderr=subprocess.PIPE)
                bash_words = pr.stdout.split(b"\0")[:-1] if pr.returncode == 0 else None
                # what the command should be: the original arguments, inputs redirected into the bundle
                want = []
                it = iter(argv)
                for a in it:
                    if a == "-o":
                        next(it); want += [b"-o", newout.encode()]
                    elif a.startswith("-o") and not a.startswith("--"):
                        want += [b"-o", newout.encode()]
                    elif a == "-L":
                        want.append(b"-L" + (save + os.path.abspath(os.path.join(f"{work}/src", next(it)))).encode())
                    elif a.startswith("-L"):
                        want.append(b"-L" + (save + os.path.abspath(os.path.join(f"{work}/src", a[2:]))).encode())
                    else:
                        pre, rest = "", a
                        if "=" in a and os.path.exists(os.path.join(f"{work}/moved-away", a.split("=", 1)[1])) and a.split("=", 1)[1]:
                            pre, rest = a.split("=", 1)[0] + "=", a.split("=", 1)[1]
                        ab = os.path.abspath(os.path.join(f"{work}/src", rest))
                        if os.path.exists(save + ab):
                            want.append((pre + save + ab).encode())
                        else:
                            want.append(a.encode())
                stats["words_checked"] += len(want)
                if bash_words is None:
                    chk.violation(f"bash cannot read the exec line of run-with (seed {seed}): {pr.stderr.decode('utf-8', 'replace')[-200:]}", rep)
                elif bash_words != want:
                    chk.violation(f"the command run-with executes is not the recorded command (seed {seed}): shell reads {[w.decode('utf-8', 'replace') for w in bash_words]}, recorded {[w.decode('utf-8', 'replace') for w in want]}", rep)
                items.append(f"read_words (env [{'; '.join(str(b) for b in save.encode())}] [{'; '.join(str(b) for b in newout.encode())}]) [{'; '.join(str(b) for b in body)}]")
                expect.append((bash_words, rep))
            shutil.rmtree(work, ignore_errors=True)
        # WILD_SAVE_BASE: every link gets its own numbered bundle; an incremental rebuild between two links must not leak into the other bundle
        for bi in range(4 if chk.tier == "quick" else 20):
            if replay:
                break
            work = f"{base}/b{bi}"
            d = f"{work}/src"
            os.makedirs(d)
            sb = f"{work}/save base"
            outs = []
            for step, val in enumerate([11, 22, 33]):
                open(f"{d}/val.s", "w").write(f".globl val\nval: mov ${val}, %eax\n ret\n")
                open(f"{d}/main.s", "w").write(".globl _start\n_start: call val\n ret\n")
                subprocess.run(f"as --64 val.s -o val.o && as --64 main.s -o main.o", shell=True, cwd=d, check=True)
                p = subprocess.run([wild, "main.o", "val.o", "-o", f"out{step}"], cwd=d, env=dict(os.environ, WILD_SAVE_BASE=sb), stdout=subprocess.PIPE, stderr=subprocess.STDOUT, text=True, timeout=60)
                stats["links"] += 1
                if p.returncode != 0:
                    chk.violation(f"link with WILD_SAVE_BASE fails: {p.stdout.strip()[-200:]}", {"scenario": "save-base", "step": step})
                    break
                outs.append(open(f"{d}/out{step}", "rb").read())
            bundles = sorted(os.listdir(sb), key=lambda x: int(x) if x.isdigit() else -1) if os.path.isdir(sb) else []
            if len(outs) == 3 and len(bundles) != 3:
                chk.violation(f"three links with one WILD_SAVE_BASE left {len(bundles)} bundles ({bundles}); each link must get its own", {"scenario": "save-base", "bundles": bundles})
            os.rename(d, f"{work}/moved-away")
            for step, b in enumerate(bundles[:len(outs)]):
                newout = f"{work}/replay{step}"
                q = subprocess.run(["bash", f"{sb}/{b}/run-with", wild], cwd=work, env=dict(os.environ, OUT=newout), stdout=subprocess.PIPE, stderr=subprocess.STDOUT, text=True, timeout=60)
                stats["replays"] += 1
                if q.returncode != 0 or not os.path.exists(newout):
                    chk.violation(f"replaying bundle {b} of a WILD_SAVE_BASE fails: {q.stdout.strip()[-200:]}", {"scenario": "save-base", "bundle": b})
                elif open(newout, "rb").read() != outs[step]:
                    chk.violation(f"bundle {b} under WILD_SAVE_BASE replays to a different output than link #{step + 1} produced (an input was rebuilt between the links)", {"scenario": "save-base", "bundle": b})
                else:
                    stats["identical"] += 1
            shutil.rmtree(work, ignore_errors=True)
    finally:
        shutil.rmtree(base, ignore_errors=True)
    if items:
        per = (len(items) + NCPU - 1) // NCPU
        bodies = ["Eval vm_compute in [\n" + ";\n".join(items[j * per:(j + 1) * per]) + "].\n" for j in range(NCPU) if items[j * per:(j + 1) * per]]
        imports = ("From Coq Require Import NArith List Bool. Import ListNotations.\nFrom WV Require Import C24.Model.\nOpen Scope N_scope.\n"
                   "Definition env (d o : list N) (name : list N) : list N := if list_eq_dec N.eq_dec name D_NAME then d else if list_eq_dec N.eq_dec name OUT_NAME then o else [].\n")
        flat, okm = [], True
        for rc_, o in coq_eval_sharded("c24", imports, bodies, timeout=600):
            if rc_ != 0:
                chk.tie_break("model evaluation failed (coqc)", o[-1500:])
                okm = False
                continue
            flat += parse_coq_value(o)
        if okm and len(flat) == len(expect):
            for mv, (bw, rep) in zip(flat, expect):
                m = [bytes(x) for x in mv]
                if bw is not None and m != bw:
                    stats["model_mismatch"] += 1
                    chk.tie_break("correspondence C24.read_words: the Coq shell reader and bash disagree on the exec line of a real run-with", dict(rep, coq=str(m)[:400], bash=str(bw)[:400]))
        elif okm:
            chk.tie_break("model evaluation: wrong number of answers", {"items": len(expect), "answers": len(flat)})
    chk.cov.update({
        "evaluations": stats["replays"], "distinct_nontrivial": stats["odd"],
        "rule": "per case a random command over objects (relative, ./, absolute), archive, thin archive + member, -L/-l in three spellings, implicit INPUT() script, -T / --script=, version script, "
                "assorted options, -o x / -ox at either end, 30% of plain cases through a response file; 70% of cases use hostile names for files, the source directory and the save directory; "
                "originals moved away before the replay; OUT and the replay directory contain blanks",
        "stats": stats,
    })
    return chk.finish(TRUSTED)
