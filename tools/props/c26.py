"""C26 — diagnostics are deterministic.
Theorems: coq/C26/Props.v (sorting the reports, or looking at per-group results in input order, makes the reported
error independent of the arrival order; warnings form the same multiset; arrival-order reporters are refuted).
Tie T2 against the real binary: generated failing links with several independent errors of one class in different input
files — undefined symbols (found during the layout traversal), duplicate symbols, relocations that do not fit (found
while writing), unreadable symbol tables (found while loading symbols) — and links with several warnings
(--warn-unresolved-symbols) are run under thread counts 1..16, WILD_FILES_PER_GROUP settings and scheduler
perturbation seeds (hook WILD_VERIF_SCHED_SEED).  Property predicate: one distinct stderr (errors) / one distinct
multiset of warning blocks per case and grouping.  Model vs implementation: the message printed is the one
C26.Model.report_sorted_first / report_first_in_input_order selects from the case's error set."""
from wvlib import *
import tempfile, shutil, struct

TRUSTED = [
    "Coq 8.16.1 kernel incl. vm_compute; axioms: none",
    "messages are abstracted to integers ordered like the message texts; that each work item's own reports depend on the item alone (not on the schedule) is assumed by the model and exercised, not proved",
    "only the error sites the generator reaches are tied: layout traversal (undefined symbols), duplicate symbols, write phase (relocation overflow), symbol loading; other parallel sites "
    "(input verification, linker-script processing, string merging, size finalisation) are not exercised",
]

IMPORTS = """From Coq Require Import ZArith List Bool. Import ListNotations.
From WV Require Import C26.Model.
Open Scope Z_scope.
Definition pick (l : list Z) : Z := match report_sorted_first l with Some m => m | None => -1 end.
Definition first_in_order (l : list (list Z)) : Z := match report_first_in_input_order (fun i => nth i l []) (seq 0 (length l)) with Some m => m | None => -1 end.
"""


def corrupt_symtab(path, salt):
    b = bytearray(open(path, "rb").read())
    shoff = struct.unpack_from("<Q", b, 0x28)[0]
    shnum = struct.unpack_from("<H", b, 0x3c)[0]
    for k in range(shnum):
        n, t, fl, ad, off, sz, lk, inf, al, es = struct.unpack_from("<IIQQQQIIQQ", b, shoff + 64 * k)
        if t == 2:
            struct.pack_into("<I", b, off + sz - 24, 0x7fffff00 + salt)
    open(path, "wb").write(b)


def gen_case(rng, d, kind):
    """writes objects into d; returns dict(objs, args, expected=(mode, data))"""
    nobj = rng.randrange(4, 11)
    names = rng.sample(["alpha", "beta", "gamma", "delta", "eps", "zeta", "eta", "theta", "iota", "kappa", "lam", "mu", "nu", "xi", "omi", "pi", "rho", "sig", "tau", "ups"], nobj)
    objs = []
    calls = []
    per_obj = []          # messages per object, in command-line order
    args = []
    for i, nm in enumerate(names):
        src = [".text", f".globl fn_{nm}", f"fn_{nm}:"]
        msgs = []
        nerr = rng.choice([0, 1, 1, 1, 2])
        if kind in ("undefined", "warnings"):
            # one symbol that is missing for most of the objects and sorts before every other message: each reference is a
            # report of its own, and the first of them is the link's error
            if rng.random() < 0.7:
                src.append(" call missing_000_everywhere")
                msgs.append(f"Undefined symbol missing_000_everywhere, referenced by \n    {nm}.o")
            for k in range(nerr):
                sym = f"missing_{rng.choice('abcdefgh')}{rng.randrange(100)}_{nm}"
                if rng.random() < 0.45:
                    sym = f"missing_shared{rng.randrange(3)}"        # the same symbol is missing for several objects: every reference is reported
                    if any(sym + "," in m_ for m_ in msgs):
                        continue
                src.append(f" call {sym}")
                msgs.append(f"Undefined symbol {sym}, referenced by \n    {nm}.o")
        elif kind == "reloc":
            if nerr:
                src.append(f" movl $far_{nm}, %eax")
                msgs.append(nm)
            src += [" ret", '.section .far,"aw"', f".globl far_{nm}", f"far_{nm}: .quad 1", ".text"]
        elif kind == "duplicate":
            for sym in sorted(rng.sample([f"dup_{a}{b}" for a in "abcdefgh" for b in range(4)], rng.randrange(2, 9))):
                src += [f".globl {sym}", f"{sym}:", " nop"]
                msgs.append(sym)
        elif kind == "symtab":
            if nerr:
                msgs.append(nm)
        src.append(" ret")
        open(f"{d}/{nm}.s", "w").write("\n".join(src) + "\n")
        objs.append(f"{nm}.o")
        calls.append(f" call fn_{nm}")
        per_obj.append(msgs)
    open(f"{d}/main.s", "w").write(".globl _start\n_start:\n" + "\n".join(calls) + "\n ret\n")
    rc, out = sh(f"cd {d} && as --64 main.s -o main.o && " + " && ".join(f"as --64 {o[:-2]}.s -o {o}" for o in objs), timeout=120)
    if rc:
        return None
    if kind == "symtab":
        for i, o in enumerate(objs):
            if per_obj[i]:
                corrupt_symtab(f"{d}/{o}", i)
    if kind == "reloc":
        args.append("--section-start=.far=0x200000000")
    if kind == "warnings":
        args.append("--warn-unresolved-symbols")
    return {"objs": ["main.o"] + objs, "args": args, "per_obj": per_obj, "names": names}


def run(chk, replay=None):
    coq = coq_build(["C26"], ["C26/Props.v"])
    chk.add_coq(coq)
    okw, outw, wild = wild_build()
    if not okw:
        chk.tie_break("wild does not build", outw[-2000:])
        return chk.finish(TRUSTED)
    rng = chk.rng
    kinds = ["undefined", "duplicate", "reloc", "symtab", "warnings"]
    ncases = 3 if chk.tier == "quick" else 20
    cases = [(k, rng.randrange(1 << 30)) for k in kinds for _ in range(ncases)]
    if replay:
        rr = json.load(open(replay))["replay"]
        cases = [(rr["kind"], rr["seeds"][0])]
    threads = [1, 2, 3, 4, 8, 16]
    fpgs = [None, 1, 2]
    nsched = 2 if chk.tier == "quick" else 6
    known = {k["id"] for k in chk.known}
    stats = {"cases": 0, "runs": 0, "by_kind": {}, "errors_per_case": [], "nondeterministic": 0, "model_mismatch": 0, "single_error_cases": 0}
    items, expect = [], []
    d = tempfile.mkdtemp(prefix="c26")
    try:
        for kind, seed in cases:
            r = random.Random(seed)
            for f in os.listdir(d):
                os.remove(os.path.join(d, f))
            c = gen_case(r, d, kind)
            if c is None:
                chk.tie_break("as failed on a generated object", {"seeds": [seed], "kind": kind})
                continue
            allmsgs = [m for ms in c["per_obj"] for m in ms]
            if kind == "duplicate":
                cnt = {}
                for m in allmsgs:
                    cnt[m] = cnt.get(m, 0) + 1
                allmsgs = [m for m in cnt if cnt[m] > 1]
            if not allmsgs:
                continue
            stats["cases"] += 1
            stats["by_kind"][kind] = stats["by_kind"].get(kind, 0) + 1
            stats["errors_per_case"].append(len(allmsgs))
            stats["single_error_cases"] += int(len(allmsgs) == 1)
            rep = {"seeds": [seed], "kind": kind, "args": c["args"]}
            for fpg in fpgs:
                seen = {}
                jobs = []
                for t in threads:
                    for s in range(nsched):
                        env = dict(os.environ)
                        if fpg:
                            env["WILD_FILES_PER_GROUP"] = str(fpg)
                        if s:
                            env["WILD_VERIF_SCHED_SEED"] = str(seed % 1000 + s)
                        jobs.append((t, s, env))

                def one(job):
                    t, s, env = job
                    p = subprocess.run([wild] + c["objs"] + ["-o", f"{d}/out.{t}.{s}", f"--threads={t}"] + c["args"], cwd=d, env=env, stdout=subprocess.PIPE, stderr=subprocess.STDOUT, text=True, timeout=120)
                    return t, s, p.returncode, p.stdout
                with ThreadPoolExecutor(max_workers=6) as ex:
                    results = list(ex.map(one, jobs))
                for t, s, rc, out in results:
                    stats["runs"] += 1
                    if kind == "warnings":
                        blocks = sorted(b for b in re.split(r"(?m)^(?=wild: warning: )", out) if b.strip())
                        key = (rc, "".join(blocks))
                    else:
                        key = (rc, out)
                    seen.setdefault(key, []).append((t, s))
                if len(seen) > 1:
                    # known finding: messages that embed the internal file id `<name> (<id> (<group>/<index>))`, which follows
                    # the grouping wild derives from the thread count; everything else about the message must still agree
                    norm = {(k[0], re.sub(r"( \(|#)\d+ \(\d+/\d+\)\)?", "", k[1])) for k in seen}
                    if len(norm) == 1 and "C26-file-id-in-message" in known and kind == "reloc":
                        chk.known_hit("C26-file-id-in-message", dict(rep, files_per_group=fpg, outputs=[k[1][:200] for k in list(seen)[:2]]))
                        seen = {list(norm)[0]: sum(seen.values(), [])}
                if len(seen) > 1:
                    stats["nondeterministic"] += 1
                    ks = list(seen.items())
                    chk.violation(f"the {'warnings' if kind == 'warnings' else 'error message'} of a failing link with {len(allmsgs)} independent {kind} problems "
                                  f"depends on the thread count / schedule (WILD_FILES_PER_GROUP={fpg or 'default'}): "
                                  f"--threads={ks[0][1][0][0]} gives {ks[0][0][1].strip()[:120]!r}, --threads={ks[1][1][0][0]} gives {ks[1][0][1].strip()[:120]!r}",
                                  dict(rep, files_per_group=fpg, outputs=[{"stderr": k[1][:600], "exit": k[0], "runs": v[:6]} for k, v in ks[:4]]))
                    continue
                (rc, out), _ = list(seen.items())[0]
                if kind != "warnings" and rc == 0:
                    chk.tie_break(f"a link with {kind} errors succeeded", rep)
                    continue
                # the model's choice
                if kind in ("undefined",):
                    ranked = sorted(set(allmsgs))
                    arrival = list(allmsgs)
                    r.shuffle(arrival)
                    items.append("pick [" + "; ".join(str(ranked.index(m)) for m in arrival) + "]")
                    expect.append(("undefined", ranked, out, dict(rep, files_per_group=fpg)))
                elif kind in ("reloc", "symtab"):
                    items.append("first_in_order [" + "; ".join("[" + "; ".join(str(c["names"].index(m)) for m in ms) + "]" for ms in c["per_obj"]) + "]")
                    expect.append((kind, c["names"], out, dict(rep, files_per_group=fpg)))
                elif kind == "duplicate":
                    for m in allmsgs:
                        if m not in out:
                            chk.violation(f"duplicate symbol {m} is not mentioned in the error (seed {seed})", rep)
                elif kind == "warnings":
                    for m in allmsgs:           # one warning per (symbol, referencing object)
                        if out.count(m) != 1:
                            chk.violation(f"warning `{m}` printed {out.count(m)} times (seed {seed})", rep)
    finally:
        shutil.rmtree(d, ignore_errors=True)
    if items:
        rc_, o = coq_eval("c26", "Eval vm_compute in [\n" + ";\n".join(items) + "].\n", IMPORTS)
        mres = parse_coq_value(o) if rc_ == 0 else None
        if mres is None or len(mres) != len(items):
            chk.tie_break("model evaluation failed", o[-800:])
        else:
            for mv, (kind, table, out, rep) in zip(mres, expect):
                if kind == "undefined":
                    want = "wild: error: " + table[mv]
                    ok = out.strip() == want.strip()
                else:
                    want = f"{table[mv]}.o"
                    first_line = out.strip().splitlines()[0] if out.strip() else ""
                    ok = want in first_line
                if not ok:
                    stats["model_mismatch"] += 1
                    chk.tie_break(f"correspondence C26.report: wild reports {out.strip()[:150]!r}; the model selects {want[:150]!r}", rep)
    chk.cov.update({
        "evaluations": stats["runs"], "distinct_nontrivial": stats["cases"] - stats["single_error_cases"],
        "rule": "per class (undefined symbols / duplicate symbols / R_X86_64_32 overflow / corrupt symbol table / undefined-symbol warnings): 4-10 objects with 0-2 problems each, linked under "
                f"--threads in {threads} x WILD_FILES_PER_GROUP in default,1,2 x {nsched} scheduler perturbation seeds; stderr compared across runs of the same grouping",
        "stats": stats,
    })
    return chk.finish(TRUSTED)
