"""C37 — DT_NEEDED lists exactly the required libraries.
Theorems: coq/C37/Props.v (on top of C03's loaded set).  Tie (T2): generated link lines biased to shared libraries under
--as-needed / --no-as-needed regions (referenced, unreferenced, weakly referenced, referenced only from another shared library,
names defined by both a library and an archive member); DT_NEEDED read from wild's output and compared, in order, with the model."""
from wvlib import *
import elfread, tempfile
import props.c03 as c03

TRUSTED = c03.TRUSTED + ["DT_NEEDED de-duplication by soname is not exercised (every generated library has a distinct soname)"]


def gen_case(rng):
    # reuse C03's generator but force 2-4 shared libraries
    while True:
        files, items, multi = c03.gen_case(rng)
        if sum(1 for f in files if f["kind"] == "so") >= 1 or rng.random() < 0.1:
            return files, items, multi


def run(chk, replay=None):
    coq = coq_build(["C03", "C37"], ["C37/Props.v"])
    chk.add_coq(coq)
    okw, outw, wild = wild_build()
    if not okw:
        chk.tie_break("wild does not build", outw[-2000:])
        return chk.finish(TRUSTED)
    rng = chk.rng
    ncase = 60 if chk.tier == "quick" else 600
    d0 = tempfile.mkdtemp(prefix="wv-c37-")
    coq_items, meta = [], []
    stats = {"links": 0, "libs": 0, "as_needed": 0, "listed": 0, "dropped": 0}
    samples = []
    try:
        for ci in range(ncase):
            files, items, multi = gen_case(rng)
            d = f"{d0}/c{ci}"
            os.makedirs(d)
            argv = c03.build(d, files, items, multi)
            exp = c03.closure(files)
            out = f"{d}/out"
            rc, o = sh([wild, "--no-gc-sections", "--allow-shlib-undefined", "--unresolved-symbols=ignore-all", "-o", out] + argv, timeout=60)
            stats["links"] += 1
            rep = {"seed": chk.seed, "case": ci, "files": [dict(kind=f["kind"], optional=f["optional"], defs=f["defs"], undefs=f["undefs"]) for f in files],
                   "link_line": [os.path.basename(a) for a in argv]}
            if rc != 0:
                chk.tie_break("generated link line rejected by wild", dict(rep, stderr=o[-300:]))
                continue
            e = elfread.Elf(out)
            dynstr = e.section(".dynstr")
            needed_obs = [e.cstr(dynstr["offset"] + val) for tag, val in e.dynamic() if tag == 1 and dynstr is not None]
            libs = [i for i, f in enumerate(files) if f["kind"] == "so"]
            stats["libs"] += len(libs)
            stats["as_needed"] += sum(1 for i in libs if files[i]["optional"])
            fl = "[" + "; ".join(f"F {'true' if f['optional'] else 'false'} {'true' if f['kind'] == 'so' else 'false'} [{'; '.join(map(str, f['defs']))}] "
                                 f"[{'; '.join('(%d, %s)' % (n, 'true' if w else 'false') for n, w in f['undefs'])}]" for f in files) + "]"
            coq_items.append(f"chk {fl} [{'; '.join(map(str, exp))}]")
            meta.append((rep, needed_obs, libs))
            if len(samples) < 3 and libs:
                samples.append({"link_line": rep["link_line"], "DT_NEEDED": needed_obs})
    finally:
        shutil.rmtree(d0, ignore_errors=True)
    per = (len(coq_items) + NCPU - 1) // NCPU
    bodies = ["Eval vm_compute in [\n" + ";\n".join(coq_items[k * per:(k + 1) * per]) + "].\n" for k in range(NCPU) if coq_items[k * per:(k + 1) * per]]
    verdicts = []
    for rc, out in coq_eval_sharded("c37", c03.IMPORTS, bodies, timeout=600):
        if rc != 0:
            chk.tie_break("model evaluation failed (coqc)", out[-1500:])
        else:
            verdicts += parse_coq_value(out)
    nontrivial = 0
    if len(verdicts) == len(meta):
        for (rep, needed_obs, libs), v in zip(meta, verdicts):
            okcert, needed_model = v
            if not okcert:
                chk.tie_break("the driver's closure is not accepted by the Coq certificate checker", rep)
                continue
            exp_needed = [f"libso{i}.so" for i in needed_model]
            stats["listed"] += len(exp_needed)
            stats["dropped"] += len(libs) - len(exp_needed)
            if libs:
                nontrivial += 1
            if needed_obs != exp_needed:
                chk.violation(f"DT_NEEDED is {needed_obs}; required libraries in command-line order are {exp_needed}", dict(rep, expected=exp_needed, observed=needed_obs))
    chk.cov.update({
        "evaluations": stats["links"], "distinct_nontrivial": nontrivial,
        "rule": "C03's link-line generator restricted to cases with at least one shared library; DT_NEEDED (ordered list) of wild's output vs the model's `needed` of the verified loaded set; "
                "non-trivial = a link line with shared libraries",
        "stats": stats, "samples": samples,
    })
    chk.assumptions = TRUSTED
    return chk.finish(TRUSTED)
