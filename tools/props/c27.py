"""C27 — partial links are transparent.
Theorems: coq/C27/Props.v (a relocation resolved through a relocatable object — once or nested — has the value of the
original reference at the final places of the original sections and symbols; refuted without the addend adjustment).
Tie T2, behaviour: generated C programs of 4-7 translation units (static functions and data reached through section
symbols with addends, string literals, weak and common symbols, hidden symbols, TLS, constructors, function pointers
tables, switch jump tables) are linked directly and through random groupings of `wild -r` (also nested, also mixed
with GNU `ld -r`), as static and PIE executables; all variants are run and must print the same.
Tie T2, relocations: generated assembly objects with a marker at the start of every input section are combined by
`wild -r`; every input relocation is looked up in the output at (merged section, offset) and both are resolved by
C27.Model.resolve (evaluated in Coq) under an arbitrary placement: equal values, equal types."""
from wvlib import *
import tempfile, shutil, struct, zlib
import elfread

TRUSTED = [
    "Coq 8.16.1 kernel incl. vm_compute; axioms: none",
    "the model covers the relocation records and symbol values of the relocatable output; section contents are copied (checked by running the programs); COMDAT groups, .eh_frame and "
    "non-alloc sections are covered only by the behavioural runs",
    "gcc 12 compiles the generated C; glibc static and dynamic start files are linked in by hand",
]


def gen_c(rng, n, common=False):
    units = []
    protos = []
    for i in range(n):
        k = rng.randrange(1000)
        src = ["#include <stdio.h>", "#include <string.h>", "PROTOS"]
        src.append(f"static int tab{i}[8] = {{{', '.join(str((k + j * 7) % 101) for j in range(8))}}};")
        src.append(f"static const char *names{i}[] = {{\"alpha\", \"unit{i}\", \"alpha\", \"zeta{k % 5}\"}};")
        src.append(f"static int helper{i}(int x) {{ return tab{i}[x & 7] * 3 + (int)strlen(names{i}[x & 3]); }}")
        cname = f"own_counter{i}"
        src.append(("int shared_common; " if (i == 0 or common) else "extern int shared_common; ") + f"int {cname};")     # with -fcommon: tentative definitions in every unit
        # zero-initialised statics of different alignments: each unit's .bss has its own alignment, and the objects must stay apart
        al = [4, 8, 16, 32, 64][(i + k) % 5]
        src.append(f"static int hits{i}; static char scratch{i}[{(k % 5) * 8 + 24}] __attribute__((aligned({al})));")
        src.append(f"__attribute__((noinline)) static int bss{i}(int x) {{ hits{i}++; memset(scratch{i}, 0x55, sizeof scratch{i}); scratch{i}[x & 7] = (char)x; return hits{i} + scratch{i}[(x + 1) & 7]; }}")
        src.append(f"__thread int tls{i} = {k % 13};")
        src.append(f"__attribute__((weak)) int weak_fn(int x) {{ return x + {i}; }}")
        src.append(f"__attribute__((visibility(\"hidden\"))) int hidden{i}(int x) {{ return x ^ {k}; }}")
        src.append(f"__attribute__((constructor)) static void ctor{i}(void) {{ {cname} += {i + 1}; shared_common += 1; }}")
        src.append(f"typedef int (*fp)(int); static fp fns{i}[] = {{helper{i}, hidden{i}, weak_fn}};")
        src.append(f"int unit{i}(int x) {{ int s = 0; for (int j = 0; j < 3; j++) s += fns{i}[j](x + j); switch (x % 5) {{ case 0: s += 11; break; case 1: s -= 7; break; case 2: s *= 3; break; case 3: s ^= 0x55; break; default: s += tls{i}; }} "
                   f"return s + bss{i}(x) + helper{i}(x) + {'unit' + str(i + 1) + '(x / 2)' if i + 1 < n else 'x'}; }}")
        protos.append(f"int unit{i}(int); int hidden{i}(int);")
        units.append(src)
    protos.append("int weak_fn(int);")
    main = ["#include <stdio.h>", "PROTOS", "extern int shared_common;",
            "int main(void) { long acc = 0; for (int x = 0; x < 40; x++) acc = acc * 31 + unit0(x); printf(\"%ld %d\\n\", acc, shared_common); return (int)(acc & 63); }"]
    units.append(main)
    return ["\n".join(u).replace("PROTOS", "\n".join(protos)) + "\n" for u in units]


def groupings(rng, objs):
    """a random way of building the program through -r: list of steps (output, inputs, linker), final input list"""
    pool = list(objs)
    steps = []
    k = 0
    for _ in range(rng.randrange(1, 4)):
        if len(pool) < 2:
            break
        take = sorted(rng.sample(range(len(pool)), rng.randrange(2, min(4, len(pool)) + 1)))
        ins = [pool[i] for i in take]
        out = f"part{k}.o"
        k += 1
        steps.append((out, ins, "wild" if rng.random() < 0.8 else "ld"))
        pos = take[0]
        for i in reversed(take):
            pool.pop(i)
        pool.insert(pos, out)
    return steps, pool


def asm_objects(rng, n):
    """objects with marked sections and relocations of several kinds"""
    files = {}
    secs = [".text", ".data", ".rodata", ".data.rel.ro"]
    for o in range(n):
        lines = []
        for s in secs:
            flags = {"": "", ".text": "ax", ".data": "aw", ".rodata": "a", ".data.rel.ro": "aw"}[s]
            lines.append(f'.section {s},"{flags}",@progbits')
            lines.append(f".balign {rng.choice([1, 4, 8, 16])}")
            lines.append(f".globl mark_{o}_{s.strip('.').replace('.', '_')}")
            lines.append(f"mark_{o}_{s.strip('.').replace('.', '_')}:")
            lines.append(f"loc_{o}_{s.strip('.').replace('.', '_')}: .zero {rng.choice([0, 3, 8, 24])}")
            for _ in range(rng.randrange(1, 5)):
                tsec = rng.choice(secs).strip(".").replace(".", "_")
                tgt = rng.choice([f"loc_{o}_{tsec}", f"loc_{o}_{tsec}", f"glob_{rng.randrange(n)}", f"mark_{rng.randrange(n)}_{tsec}", "outside_sym"])
                add = rng.choice([0, 0, 4, 16, -8, 100])
                if s == ".text":
                    lines.append(rng.choice([f" lea {tgt}{add:+d}(%rip), %rax", f" call {tgt}", f" movabs ${tgt}{add:+d}, %rax"]))
                else:
                    lines.append(rng.choice([f" .quad {tgt}{add:+d}", f" .long {tgt}{add:+d} - .", f" .quad {tgt}{add:+d}"]))
        lines.append(".data")
        lines.append(f".globl glob_{o}")
        lines.append(f"glob_{o}: .quad {o}")
        files[f"a{o}.s"] = "\n".join(lines) + "\n"
    return files


def relocs_of(e):
    """[(section index the relocs apply to, offset, type, symbol dict, addend)]"""
    out = []
    syms = e.symbols(".symtab")
    for sh_ in e.shdrs:
        if sh_["type"] == 4:
            tgt = sh_["info"]
            if not (e.shdrs[tgt]["flags"] & 2):
                continue
            d = e.b[sh_["offset"]:sh_["offset"] + sh_["size"]]
            for i in range(len(d) // 24):
                off, info, add = struct.unpack_from("<QQq", d, i * 24)
                out.append((tgt, off, info & 0xffffffff, syms[info >> 32], add))
    return out


def run(chk, replay=None):
    coq = coq_build(["C27"], ["C27/Props.v"])
    chk.add_coq(coq)
    okw, outw, wild = wild_build()
    if not okw:
        chk.tie_break("wild does not build", outw[-2000:])
        return chk.finish(TRUSTED)
    rng = chk.rng
    seeds = [rng.randrange(1 << 30) for _ in range(5 if chk.tier == "quick" else 50)]
    if replay:
        seeds = json.load(open(replay))["replay"]["seeds"]
    known = {k["id"] for k in chk.known}
    stats = {"programs": 0, "groupings": 0, "runs": 0, "nested": 0, "mixed_with_ld": 0, "asm_cases": 0, "relocations_compared": 0, "section_symbol_relocs": 0, "model_mismatch": 0}
    gccdir = sh("dirname $(gcc -print-libgcc-file-name)")[1].strip()
    lib = "/usr/lib/x86_64-linux-gnu"
    kinds = {
        "static": f"-static {lib}/crt1.o {lib}/crti.o {gccdir}/crtbeginT.o OBJS --start-group {lib}/libc.a {gccdir}/libgcc.a {gccdir}/libgcc_eh.a --end-group {gccdir}/crtend.o {lib}/crtn.o",
        "pie": f"-pie -dynamic-linker /lib64/ld-linux-x86-64.so.2 {lib}/Scrt1.o {lib}/crti.o {gccdir}/crtbeginS.o OBJS {lib}/libc.so.6 {gccdir}/libgcc.a {gccdir}/crtendS.o {lib}/crtn.o",
    }
    items, expect = [], []
    d = tempfile.mkdtemp(prefix="c27")
    try:
        if not replay:
            # corpus: tentative (COMMON) definitions through -r (earlier finding)
            rc0 = random.Random(7)
            units = gen_c(rc0, 3, common=True)
            for i, u in enumerate(units):
                open(f"{d}/k{i}.c", "w").write(u)
            rc, out = sh(f"cd {d} && " + " && ".join(f"gcc -O1 -fPIC -fcommon -c k{i}.c -o k{i}.o" for i in range(len(units))) +
                         f" && {wild} {kinds['static'].replace('OBJS', ' '.join(f'k{i}.o' for i in range(len(units))))} -o kd && ./kd", timeout=300)
            direct = (rc, out)
            rc, out = sh(f"cd {d} && {wild} -r k0.o k1.o -o kp.o && {wild} {kinds['static'].replace('OBJS', 'kp.o k2.o k3.o')} -o kv && ./kv", timeout=120)
            stats["runs"] += 2
            if (rc, out) != direct:
                if "C27-common-symbols-dropped" in known and ("to absolute" in out or "Undefined symbol" in out):
                    chk.known_hit("C27-common-symbols-dropped", {"scenario": "common", "output": out[-300:]})
                else:
                    chk.violation(f"a program with tentative (COMMON) definitions behaves differently through `wild -r`: direct {direct}, through -r exit {rc} {out.strip()[-200:]!r}", {"scenario": "common"})
        for seed in seeds:
            r = random.Random(seed)
            for f in os.listdir(d):
                os.remove(f"{d}/{f}")
            n = r.randrange(3, 7)
            units = gen_c(r, n)
            for i, u in enumerate(units):
                open(f"{d}/u{i}.c", "w").write(u)
            objs = [f"u{i}.o" for i in range(len(units))]
            rc, out = sh(f"cd {d} && " + " && ".join(f"gcc -O1 -fPIC {r.choice(['', '-ffunction-sections -fdata-sections'])} -c u{i}.c -o u{i}.o" for i in range(len(units))), timeout=300)
            if rc:
                chk.tie_break("gcc failed on a generated program", {"seeds": [seed], "msg": out[-400:]})
                continue
            stats["programs"] += 1
            for kind, templ in kinds.items():
                rep = {"seeds": [seed], "kind": kind}
                rc, out = sh(f"cd {d} && {wild} {templ.replace('OBJS', ' '.join(objs))} -o direct.{kind} && ./direct.{kind}", timeout=120)
                direct = (rc, out)
                if "Undefined" in out or "error" in out:
                    chk.violation(f"the direct link fails (seed {seed}, {kind}): {out.strip()[-200:]}", rep)
                    continue
                stats["runs"] += 1
                for gi in range(3 if chk.tier == "quick" else 8):
                    steps, final = groupings(r, objs)
                    stats["groupings"] += 1
                    stats["nested"] += int(any(o.startswith("part") for _, ins, _ in steps for o in ins))
                    stats["mixed_with_ld"] += int(any(l == "ld" for _, _, l in steps))
                    rep2 = dict(rep, steps=steps, final=final)
                    ok = True
                    for outp, ins, linker in steps:
                        # how wild splits its inputs into work groups follows the thread count; exercise both one group and many
                        conf = r.choice(["--threads=1", "--threads=1", "--threads=2", "--threads=16", ""])
                        envp = r.choice(["", "", "WILD_FILES_PER_GROUP=1 ", "WILD_FILES_PER_GROUP=8 "])
                        rc, out = sh(f"cd {d} && {envp if linker == 'wild' else ''}{wild if linker == 'wild' else 'ld'} -r {' '.join(ins)} -o {outp} {conf if linker == 'wild' else ''}", timeout=120)
                        if rc:
                            if linker == "wild":
                                chk.violation(f"`wild -r` fails on {ins} (seed {seed}): {out.strip()[-200:]}", rep2)
                            ok = False
                            break
                    if not ok:
                        continue
                    rc, out = sh(f"cd {d} && {wild} {templ.replace('OBJS', ' '.join(final))} -o via.{kind} && ./via.{kind}", timeout=120)
                    stats["runs"] += 1
                    if (rc, out) != direct:
                        chk.violation(f"the program behaves differently when linked through relocatable objects (seed {seed}, {kind}): direct exit {direct[0]} {direct[1].strip()[:60]!r}, "
                                      f"through {[s[0] + '=' + '+'.join(s[1]) + '(' + s[2] + ')' for s in steps]} exit {rc} {out.strip()[:120]!r}", rep2)
            # relocation records against the model
            files = asm_objects(r, r.randrange(2, 5))
            for nme, text in files.items():
                open(f"{d}/{nme}", "w").write(text)
            names = sorted(files)
            rc, out = sh(f"cd {d} && " + " && ".join(f"as --64 {x} -o {x[:-2]}.o" for x in names) + f" && {r.choice(['', 'WILD_FILES_PER_GROUP=8 '])}{wild} -r {' '.join(x[:-2] + '.o' for x in names)} -o comb.o {r.choice(['--threads=1', '--threads=4', ''])}", timeout=120)
            if rc:
                chk.violation(f"`wild -r` fails on generated assembly objects (seed {seed}): {out.strip()[-200:]}", {"seeds": [seed]})
                continue
            stats["asm_cases"] += 1
            eo = elfread.Elf(f"{d}/comb.o")
            osyms = {s["name"]: s for s in eo.symbols(".symtab") if s["name"]}
            orel = {}
            for (tsec, off, ty, sym, add) in relocs_of(eo):
                orel[(tsec, off)] = (ty, sym, add)
            fake_addr = lambda idx: 0x100000 * (idx + 1)

            def out_value(sym):
                if sym["type"] == 3:
                    return fake_addr(sym["shndx"])
                s2 = osyms.get(sym["name"])
                if s2 is None or s2["shndx"] == 0:
                    return zlib.crc32(sym["name"].encode()) & 0xffffff
                return fake_addr(s2["shndx"]) + s2["value"]
            for oi, nme in enumerate(names):
                ei = elfread.Elf(f"{d}/{nme[:-2]}.o")
                for (tsec, off, ty, sym, add) in relocs_of(ei):
                    secname = ei.shdrs[tsec]["name"]
                    mk = osyms.get(f"mark_{oi}_{secname.strip('.').replace('.', '_')}")
                    if mk is None:
                        continue
                    stats["relocations_compared"] += 1
                    where = (mk["shndx"], mk["value"] + off)
                    rep3 = {"seeds": [seed], "object": nme, "section": secname, "offset": off, "type": ty, "symbol": sym["name"], "addend": add}
                    got = orel.get(where)
                    if got is None:
                        chk.violation(f"`wild -r` lost the relocation at {secname}+{off:#x} of {nme} (type {ty} against {sym['name'] or 'a section'}{add:+d})", rep3)
                        continue
                    oty, osym, oadd = got
                    if oty != ty:
                        chk.violation(f"`wild -r` changed the type of the relocation at {secname}+{off:#x} of {nme}: {ty} -> {oty}", rep3)
                    # the original reference at its final place: the target's input section is found through its marker
                    if sym["type"] == 3:
                        stats["section_symbol_relocs"] += 1
                        tname = ei.shdrs[sym["shndx"]]["name"]
                        tmk = osyms.get(f"mark_{oi}_{tname.strip('.').replace('.', '_')}")
                        if tmk is None:
                            continue
                        s_in = fake_addr(tmk["shndx"]) + tmk["value"]
                        g_tgt = f"TSec 1"
                        merged_t, off_t = tmk["shndx"], tmk["value"]
                    else:
                        s_in = out_value(sym)
                        merged_t, off_t = 0, 0
                    pc = ty in (2, 4, 24)
                    # Coq: resolve of the OUTPUT record under the fake placement vs resolve (through g p) of the INPUT record
                    items.append(f"(resolve (P {fake_addr(where[0])} {out_value(osym)}) (fun _ => None) (R 0 {where[1]} ({oadd}) {int(pc)}), "
                                 f"resolve (P {fake_addr(mk['shndx']) + mk['value']} {s_in}) (fun _ => None) (R 0 {off} ({add}) {int(pc)}))")
                    expect.append(rep3)
    finally:
        shutil.rmtree(d, ignore_errors=True)
    if items:
        imports = ("From Coq Require Import ZArith List Bool. Import ListNotations.\nFrom WV Require Import C27.Model.\nOpen Scope Z_scope.\n"
                   "Definition P (sec_addr sym_addr : Z) := {| addr := fun i => match i with O => sec_addr | _ => sym_addr end; ext := fun _ => sym_addr |}.\n"
                   "Definition R (sec : nat) (off add : Z) (pc : nat) := {| r_sec := sec; r_off := off; r_tgt := TSec 1; r_add := add; r_pc := Nat.ltb 0 pc |}.\n")
        per = (len(items) + NCPU - 1) // NCPU
        bodies = ["Eval vm_compute in [\n" + ";\n".join(items[j * per:(j + 1) * per]) + "].\n" for j in range(NCPU) if items[j * per:(j + 1) * per]]
        flat, okm = [], True
        for rc_, o in coq_eval_sharded("c27", imports, bodies, timeout=600):
            if rc_ != 0:
                chk.tie_break("model evaluation failed (coqc)", o[-1500:])
                okm = False
                continue
            flat += parse_coq_value(o)
        if okm and len(flat) == len(expect):
            for (a, b), rep in zip(flat, expect):
                if a != b:
                    stats["model_mismatch"] += 1
                    chk.violation(f"a relocation of {rep['object']} ({rep['section']}+{rep['offset']:#x}, type {rep['type']} against {rep['symbol'] or 'a section symbol'}{rep['addend']:+d}) resolves to a "
                                  f"different place after `wild -r`: {a:#x} instead of {b:#x} under the same placement", rep)
        elif okm:
            chk.tie_break("model evaluation: wrong number of answers", {"items": len(expect), "answers": len(flat)})
    chk.cov.update({
        "evaluations": stats["runs"], "distinct_nontrivial": stats["relocations_compared"],
        "rule": "C programs of 3-6 units + main (statics, string literals, common, TLS, weak, hidden, constructors, function-pointer tables, jump tables; half with -ffunction-sections) linked "
                "static and PIE, directly and through 3 (thorough: 8) random groupings of 1-3 `-r` steps (20% by GNU ld, nesting allowed); assembly objects with marked sections for the "
                "relocation-record comparison",
        "stats": stats,
    })
    return chk.finish(TRUSTED)
