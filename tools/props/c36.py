"""C36 — stack and GNU property notes are merged as in GNU ld.
Theorems: coq/C36/Props.v.  Tie T2: objects with hand-written .note.gnu.property (x86 feature AND bits, ISA needed / ISA used /
feature-2 used, generic UINT32 AND/OR types, missing notes, zero values) and .note.GNU-stack sections (absent / non-exec / exec)
are linked by wild and by GNU ld with -z execstack / noexecstack / x86-64-vN; the output's property note and PT_GNU_STACK flags
are read back.  wild vs model (wild_merge / wild_stack), ld vs spec (gnu_note / gnu_stack), wild vs ld (the property)."""
from wvlib import *
import tempfile, shutil, struct
import elfread

TRUSTED = [
    "Coq 8.16.1 kernel incl. vm_compute; axioms: none",
    "spec = GNU ld's property merge stated per property type and its stack rule (C36/Model.v gnu_note = spec_merge + GNU ld's unmerged single-input case, gnu_stack), validated on every run against GNU ld 2.40 on the generated links",
    "only 4-byte properties are modelled (wild skips the others: GNU_PROPERTY_STACK_SIZE, NO_COPY_ON_PROTECTED); shared-library inputs, -z ibt/-z shstk/-z cet-report and AArch64 BTI/PAC are outside the generated inputs",
    "an absent PT_GNU_STACK (GNU ld when no input has a stack note) is read as `not executable`, which is what current x86-64 kernels do",
]

IMPORTS = """From Coq Require Import NArith List Bool. Import ListNotations.
From WV Require Import C36.Model.
Open Scope N_scope.
Definition zf (n : N) : zflag := match n with 1 => ZExec | 2 => ZNoExec | _ => ZNone end.
Definition ob (n : N) : option bool := match n with 0 => None | 1 => Some false | _ => Some true end.
Definition run (files : list file) (isa : N) (notes : list N) (z : N) :=
  (match wild_merge files isa with Some l => (1, l) | None => (0, []) end, gnu_note files isa,
   match wild_stack (map ob notes) (zf z) with None => 2 | Some true => 1 | Some false => 0 end,
   if gnu_stack (map ob notes) (zf z) then 1 else 0).
"""

AND, NEED, USED, F2U = 0xc0000002, 0xc0008002, 0xc0010002, 0xc0010001
GAND, GOR = 0xb0000001, 0xb0008001
ISA = {None: 0, "x86-64-baseline": 1, "x86-64-v2": 2, "x86-64-v3": 4, "x86-64-v4": 8}


def gen_case(rng, odd):
    nf = rng.randrange(1, 5)
    files = []
    pool = [AND, AND, NEED, USED, F2U] + ([GAND, GOR, 0xc0000003] if odd else [])
    shared_types = rng.sample(pool, rng.randrange(1, min(4, len(set(pool)) + 1)))
    for i in range(nf):
        if rng.random() < (0.25 if odd else 0.1):
            files.append([])          # no note at all
            continue
        props = []
        for t in dict.fromkeys(shared_types):
            if rng.random() < 0.85:
                if t == AND:
                    v = rng.choice([3, 3, 1, 2, 0 if odd else 3])
                elif rng.random() < (0.15 if odd else 0.02):
                    v = 0
                else:
                    v = rng.choice([1, 2, 3, 4, 5, 8, 0x10])
                props.append((t, v))
        files.append(props)
    notes = [rng.choice([1, 1, 1, 0, 2] if odd else [1, 1, 1, 1, 0]) for _ in range(nf)]
    z = rng.choice([0, 0, 1, 2])
    isa = rng.choice([None, None, None, "x86-64-v2", "x86-64-v3", "x86-64-v4"])      # GNU ld 2.40 aborts on -z x86-64-baseline
    prefix = [sorted(rng.sample([1, 2], rng.randrange(0, 3))) if (odd and rng.random() < 0.5) else [] for _ in range(nf)]
    return {"files": files, "notes": notes, "z": z, "isa": isa, "prefix": prefix}


def build(d, c):
    names = []
    for i, (props, note) in enumerate(zip(c["files"], c["notes"])):
        s = [".text"]
        s += [".globl _start", "_start: ret"] if i == 0 else [f".globl f{i}", f"f{i}: ret"]
        if props:
            # some notes begin with generic properties whose data is not 4 bytes (GNU_PROPERTY_STACK_SIZE: 8, NO_COPY_ON_PROTECTED: 0);
            # they sort before every feature property and must not disturb the reading of what follows
            pre = c.get("prefix", [[]] * len(c["files"]))[i]
            presz = sum(16 if k == 1 else 8 for k in pre)
            s += ['.section .note.gnu.property,"a",@note', ".balign 8", ".long 4", f".long {16 * len(props) + presz}", ".long 5", '.asciz "GNU"']
            for k in pre:
                s += ([".long 1", ".long 8", ".quad 0x100000"] if k == 1 else [".long 2", ".long 0"])
            for t, v in props:
                s += [f".long {t}", ".long 4", f".long {v}", ".long 0"]
        if note:
            s.append('.section .note.GNU-stack,"%s",@progbits' % ("x" if note == 2 else ""))
        open(f"{d}/o{i}.s", "w").write("\n".join(s) + "\n")
        rc, out = sh(f"cd {d} && as --64 o{i}.s -o o{i}.o", timeout=60)
        if rc != 0:
            return None
        names.append(f"o{i}.o")
    flags = []
    if c["z"] == 1:
        flags += ["-z", "execstack"]
    elif c["z"] == 2:
        flags += ["-z", "noexecstack"]
    if c["isa"]:
        flags += ["-z", c["isa"]]
    return names + flags


def read_out(path):
    e = elfread.Elf(path)
    stack = 0
    for p in e.phdrs:
        if p["type"] == 0x6474e551:
            stack = 1 if p["flags"] & 1 else 0
    props = []
    sec = e.section(".note.gnu.property")
    if sec is not None:
        dta = e.data(sec)
        off = 0
        while off + 12 <= len(dta):
            namesz, descsz, ty = struct.unpack_from("<III", dta, off)
            off += 12 + ((namesz + 3) & ~3)
            desc = dta[off:off + descsz]
            off += (descsz + 7) & ~7
            if ty == 5:
                o = 0
                while o + 8 <= len(desc):
                    t, sz = struct.unpack_from("<II", desc, o)
                    val = desc[o + 8:o + 8 + sz]
                    if sz == 4:
                        props.append([t, struct.unpack("<I", val)[0]])
                    o += 8 + ((sz + 7) & ~7)
    return props, stack


def run(chk, replay=None):
    coq = coq_build(["C36"], ["C36/Props.v"])
    chk.add_coq(coq)
    okw, outw, wild = wild_build()
    if not okw:
        chk.tie_break("wild does not build", outw[-2000:])
        return chk.finish(TRUSTED)
    rng = chk.rng
    cases = []
    if replay:
        cases = json.load(open(replay))["replay"]["cases"]
    else:
        cp = os.path.join(ROOT, "corpus", "C36.json")
        if os.path.exists(cp):
            cases += json.load(open(cp))
        for k in range(120 if chk.tier == "quick" else 1200):
            cases.append(gen_case(rng, odd=(k % 3 == 2)))
    known = {k["id"] for k in chk.known}
    stats = {"cases": len(cases), "both_link": 0, "wild_rejects": 0, "props_equal": 0, "stack_equal": 0, "model_mismatch": 0, "spec_mismatch": 0,
             "with_missing_note": 0, "with_exec_note": 0, "nonempty_output_note": 0}
    d = tempfile.mkdtemp(prefix="c36")
    obs = []
    try:
        for c in cases:
            c["files"] = [[tuple(p) for p in f] for f in c["files"]]
            args = build(d, c)
            if args is None:
                obs.append(None)
                continue
            rcw, ow = sh(f"cd {d} && rm -f out.wild && timeout 60 {wild} {' '.join(args)} -o out.wild", timeout=90)
            rcl, ol = sh(f"cd {d} && rm -f out.ld && timeout 60 ld {' '.join(args)} -o out.ld 2>&1", timeout=90)
            obs.append((read_out(d + "/out.wild") if rcw == 0 else None, read_out(d + "/out.ld") if rcl == 0 else None, ow[-200:], ol[-200:]))
    finally:
        shutil.rmtree(d, ignore_errors=True)
    items = []
    for c in cases:
        fl = "[" + "; ".join("[" + "; ".join(f"({t}, {v})" for t, v in f) + "]" for f in c["files"]) + "]"
        items.append(f"run {fl} {ISA[c['isa']]} [{'; '.join(map(str, c['notes']))}] {c['z']}")
    mres = []
    per = (len(items) + NCPU - 1) // NCPU
    bodies = ["Eval vm_compute in [\n" + ";\n".join(items[k * per:(k + 1) * per]) + "].\n" for k in range(NCPU) if items[k * per:(k + 1) * per]]
    okm = True
    for rc, out in coq_eval_sharded("c36", IMPORTS, bodies, timeout=600):
        if rc != 0:
            chk.tie_break("model evaluation failed (coqc)", out[-1500:])
            okm = False
            continue
        mres += parse_coq_value(out)
    if okm and len(mres) != len(cases):
        chk.tie_break("model evaluation: wrong number of answers", {"cases": len(cases), "answers": len(mres)})
        mres = []
    samples = []
    for c, o, m in zip(cases, obs, mres):
        if o is None:
            continue
        (w, l, ow, ol) = o
        mw_ok, mw, mg, mws, mgs = m
        rep = {"cases": [c], "wild": w, "ld": l, "model_wild": [mw_ok, mw, mws], "model_gnu": [mg, mgs], "wild_msg": ow if w is None else "", "ld_msg": ol if l is None else ""}
        missing = 0 in c["notes"] and any(n != 0 for n in c["notes"])
        stats["with_missing_note"] += int(0 in c["notes"])
        stats["with_exec_note"] += int(2 in c["notes"])
        # wild vs model
        model_rejects = (mw_ok == 0) or mws == 2
        if (w is None) != model_rejects:
            stats["model_mismatch"] += 1
            chk.tie_break("correspondence C36: wild accepts/rejects differently from the model", rep)
        elif w is not None and (w[0] != [list(x) for x in mw] or w[1] != mws):
            stats["model_mismatch"] += 1
            chk.tie_break("correspondence C36.wild_merge/wild_stack: wild's output note / PT_GNU_STACK differs from the model", rep)
        # ld vs spec
        if l is None:
            chk.tie_break("GNU ld rejected a generated link", rep)
            continue
        single_generic = len(c["files"]) == 1 and any(0xb0000000 <= t <= 0xb000ffff for t, v in c["files"][0])
        irregular = single_generic and any(v == 0 and (0xc0000002 <= t <= 0xc000ffff) for t, v in c["files"][0])
        stats["unmerged_irregular"] = stats.get("unmerged_irregular", 0) + int(irregular)
        if irregular:
            pass            # outside the domain on which gnu_note is claimed to be GNU ld's note (Model.v unmerged_irregular)
        elif l[0] != [list(x) for x in mg] or l[1] != mgs:
            stats["spec_mismatch"] += 1
            chk.tie_break("spec validation C36.gnu_note/gnu_stack: GNU ld's output differs from the specification", rep)
        if w is None:
            stats["wild_rejects"] += 1
            continue
        stats["both_link"] += 1
        stats["nonempty_output_note"] += int(bool(l[0]))
        if w[0] == l[0]:
            stats["props_equal"] += 1
        else:
            unmerged_zero = single_generic and (irregular or any(v == 0 and 0xb0000000 <= t <= 0xb000ffff for t, v in c["files"][0]))
            what = f"GNU property note {[(hex(t), v) for t, v in w[0]]} with wild, {[(hex(t), v) for t, v in l[0]]} with GNU ld; inputs {[[(hex(t), v) for t, v in f] for f in c['files']]} isa={c['isa']}"
            if unmerged_zero and "C36-single-input-zero-generic-entry" in known:
                chk.known_hit("C36-single-input-zero-generic-entry", rep)
            else:
                chk.violation(what, rep)
        if w[1] == l[1]:
            stats["stack_equal"] += 1
        else:
            what = f"PT_GNU_STACK {'RWE' if w[1] else 'RW'} with wild, {'RWE' if l[1] else 'RW/absent'} with GNU ld; stack notes {c['notes']} (0 missing, 1 non-exec, 2 exec), z={c['z']}"
            if missing and c["z"] == 0 and "C36-missing-stack-note" in known:
                chk.known_hit("C36-missing-stack-note", rep)
            else:
                chk.violation(what, rep)
        if len(samples) < 4 and l[0]:
            samples.append({"inputs": c["files"], "notes": c["notes"], "z": c["z"], "isa": c["isa"], "wild": w, "ld": l})
    chk.cov.update({
        "evaluations": stats["cases"], "distinct_nontrivial": stats["nonempty_output_note"],
        "rule": "1-4 objects; property types FEATURE_1_AND / ISA_1_NEEDED / ISA_1_USED / FEATURE_2_USED (every 3rd case adds generic UINT32 AND/OR types, zero values, more objects without a note); "
                "stack notes mostly non-exec, sometimes missing / exec; -z execstack / noexecstack / x86-64-vN at random; non-trivial = GNU ld's output carries a property note",
        "stats": stats, "samples": samples,
    })
    return chk.finish(TRUSTED)
