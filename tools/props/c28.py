"""C28 — optional transformations don't change program behaviour.
Theorems: coq/C28/Props.v (corollaries of the C09, C14, C07 and C08 models: the loaded image is identical with and
without RELR at every base; the position-independent image is the static one shifted; a relaxed instruction keeps its
effect; merged strings keep what references read; the GNU hash lookup finds every definition).
Tie T2, behaviour: generated C programs (arrays of hundreds of pointers, pointers at odd offsets in packed structs,
TLS in every model gcc emits, GOT loads of data and functions, string literals shared and tail-overlapping across
units, function-pointer dispatch, constructors, and — in the dynamic kinds — dlsym() of dozens of exported names)
are linked by wild as static, static-PIE, PIE and non-PIE dynamic executables under combinations of --relax /
--no-relax, -z pack-relative-relocs / nopack, --hash-style, --build-id modes, string merging on / off, -z now / lazy;
every variant is run and all must print the same and exit the same.  Each option is checked to have taken effect in
the file (a .relr.dyn exists, only the asked hash table exists, the build-id note has the asked length)."""
from wvlib import *
import tempfile, shutil, zlib
import elfread

TRUSTED = [
    "Coq 8.16.1 kernel incl. vm_compute; axioms: none",
    "the theorems are corollaries of C09/C14/C07/C08, whose models are tied to the code by their own checks; build-id modes, -z now and the SysV hash table are covered by the runs only",
    "gcc 12 and glibc 2.36 compile and run the programs; wild is driven through gcc -B",
]


def gen_program(rng):
    n = rng.randrange(3, 6)
    nsym = rng.randrange(20, 60)
    units = []
    for u in range(n):
        src = ["#include <stdio.h>", "#include <string.h>", "#include <stdint.h>"]
        src.append(f"int shared_data{u}[4] = {{{u}, {u + 1}, {u + 2}, {u + 3}}};")
        src.append(f"__thread int tls_init{u} = {u * 3 + 1}; __thread int tls_zero{u}; static __thread int tls_local{u} = {u + 40}; static __thread char tls_byte{u}; __thread char tls_pubbyte{u} = {u + 1};")
        nch = rng.randrange(0, 6)          # a TLS segment whose size is not a multiple of its alignment
        src.append("".join(f"static __thread char tls_pad{u}_{j}; " for j in range(nch)) + (f"static __thread long tls_long{u} = {u + 7};" if rng.random() < 0.5 else f"static __thread char tls_long{u} = {u + 7};"))
        src.append(f"__attribute__((noinline)) static long tls_touch{u}(int x) {{ long s = tls_long{u}; " + "".join(f"tls_pad{u}_{j} += {j + 1}; s += tls_pad{u}_{j}; " for j in range(nch)) + f"tls_long{u} += x; return s; }}")
        for k in range(u, nsym, n):
            src.append(f"int exported_{k}(int x) {{ return x * {k % 7 + 1} + {k}; }}")
        src.append(f"static const char *words{u}[] = {{\"common-prefix-and-tail\", \"tail\", \"and-tail\", \"unit-{u}\", \"x\", \"\"}};")
        src.append(f"static int (*table{u}[])(int) = {{{', '.join(f'exported_{k}' for k in range(u, nsym, n))}}};")
        src.append(f"struct __attribute__((packed)) odd{u} {{ char c; const char *p; char d; int (*f)(int); }};")
        src.append(f"static struct odd{u} odds{u}[3] = {{{{1, \"odd-a\", 2, exported_{u}}}, {{3, \"tail\", 4, exported_{u}}}, {{5, \"odd-c\", 6, exported_{u}}}}};")
        src.append(f"static const void *many{u}[] = {{{', '.join(f'&shared_data{u}[{j % 4}]' for j in range(rng.choice([70, 130, 300])))}}};")
        nxt = f"unit{u + 1}(x + 1)" if u + 1 < n else "0"
        src.append(f"long unit{u + 1 if u + 1 < n else 0}(int);" if u + 1 < n else "")
        src.append(f"extern int shared_data{(u + 1) % n}[4];")
        src.append(f"long unit{u}(int x) {{ long s = 0; for (unsigned i = 0; i < sizeof table{u} / sizeof *table{u}; i++) s = s * 3 + table{u}[i](x); "
                   f"for (int i = 0; i < 6; i++) s += strlen(words{u}[i]) * (i + 1) + (words{u}[i][0] ? words{u}[i][0] : 7); "
                   f"for (int i = 0; i < 3; i++) s += odds{u}[i].f(i) + strlen(odds{u}[i].p) + odds{u}[i].c; "
                   f"for (unsigned i = 0; i < sizeof many{u} / sizeof *many{u}; i++) s += *(const int *)many{u}[i]; "
                   f"tls_zero{u} += x; tls_local{u} += 2; tls_byte{u} += 1; s += tls_touch{u}(x) + tls_init{u} + tls_zero{u} + tls_local{u} + tls_byte{u} + tls_pubbyte{u} + shared_data{(u + 1) % n}[x & 3]; return s + {nxt}; }}")
        units.append("\n".join(src) + "\n")
    # a unit whose only strings are 9500 distinct 16-byte strings (152000 bytes of mergeable strings: more than one of the
    # 140032-byte pieces string merging works in, with strings starting exactly on a piece boundary)
    nbig = 9500
    big = ["#include <stdio.h>", "#include <string.h>",
           "static const char *const bigtab[] = {" + ", ".join(f'"s{i:014d}"' for i in range(nbig)) + "};",
           # (no other string literal in this unit: the table's strings start at multiples of 16 in its .rodata.str1.1)
           f"long bigcheck(void) {{ long bad = 0; for (int i = 0; i < {nbig}; i++) {{ const char *s = bigtab[i]; int v = i, ok = s[0] == 's' && s[15] == 0; "
           f"for (int k = 14; k >= 1; k--) {{ if (s[k] != '0' + v % 10) ok = 0; v /= 10; }} if (!ok) bad++; }} return bad; }}"]
    units.append("\n".join(big) + "\n")
    main = ["#include <stdio.h>", "#include <string.h>", "#ifdef DYN", "#define _GNU_SOURCE", "#include <dlfcn.h>", "#endif", "long unit0(int); long bigcheck(void);"]
    main.append("static int ctor_ran; __attribute__((constructor)) static void c(void) { ctor_ran = 42; }")
    main.append("int main(void) { long acc = ctor_ran; for (int x = 0; x < 9; x++) acc = acc * 17 + unit0(x);")
    main.append("#ifdef DYN")
    main.append(f"  int found = 0; for (int k = 0; k < {nsym}; k++) {{ char nm[32]; snprintf(nm, sizeof nm, \"exported_%d\", k); int (*f)(int) = (int (*)(int))dlsym(RTLD_DEFAULT, nm); if (f && f(2) == 2 * (k % 7 + 1) + k) found++; }}")
    main.append(f"  if (found != {nsym}) {{ printf(\"dlsym found %d of {nsym}\\n\", found); return 99; }}")
    main.append("  if (dlsym(RTLD_DEFAULT, \"no_such_symbol_anywhere\")) { puts(\"dlsym found a ghost\"); return 98; }")
    main.append("#endif")
    main.append("  { long bad = bigcheck(); if (bad) { printf(\"%ld of the 9500 strings of the big table are wrong\\n\", bad); return 97; } }")
    main.append("  printf(\"%ld\\n\", acc); return (int)(acc & 31); }")
    units.append("\n".join(main) + "\n")
    return units, nsym


def variants(rng, count):
    out = []
    for _ in range(count):
        out.append({"kind": rng.choice(["static", "static-pie", "pie", "nopie"]), "relax": rng.choice([None, "--relax", "--no-relax"]),
                    "relr": rng.choice([None, "pack-relative-relocs", "nopack-relative-relocs"]), "hash": rng.choice([None, "gnu", "sysv", "both"]),
                    "buildid": rng.choice([None, "none", "fast", "sha1", "uuid", "0xdeadbeefcafe"]), "merge": rng.choice([None, "--no-string-merge"]),
                    "now": rng.choice([None, "now", "lazy"])})
    # the corners
    out.append({"kind": "pie", "relax": "--no-relax", "relr": "nopack-relative-relocs", "hash": "sysv", "buildid": "none", "merge": "--no-string-merge", "now": "lazy"})
    out.append({"kind": "pie", "relax": "--relax", "relr": "pack-relative-relocs", "hash": "gnu", "buildid": "sha1", "merge": None, "now": "now"})
    out.append({"kind": "static-pie", "relax": "--relax", "relr": "pack-relative-relocs", "hash": None, "buildid": "fast", "merge": None, "now": None})
    out.append({"kind": "static", "relax": "--no-relax", "relr": None, "hash": None, "buildid": "uuid", "merge": "--no-string-merge", "now": None})
    return out


def run(chk, replay=None):
    coq = coq_build(["C09", "C14", "C07", "C08", "C28"], ["C28/Props.v"], timeout=2400)
    chk.add_coq(coq)
    okw, outw, wild = wild_build()
    if not okw:
        chk.tie_break("wild does not build", outw[-2000:])
        return chk.finish(TRUSTED)
    rng = chk.rng
    seeds = [rng.randrange(1 << 30) for _ in range(3 if chk.tier == "quick" else 30)]
    if replay:
        seeds = json.load(open(replay))["replay"]["seeds"]
    stats = {"programs": 0, "variants": 0, "by_kind": {}, "relr_tables": 0, "gnu_only": 0, "sysv_only": 0, "no_relax": 0, "no_merge": 0, "build_id_modes": {}, "rejected": 0}
    d = tempfile.mkdtemp(prefix="c28")
    try:
        os.makedirs(f"{d}/bin")
        os.symlink(wild, f"{d}/bin/ld")
        for seed in seeds:
            r = random.Random(seed)
            units, nsym = gen_program(r)
            for i, u in enumerate(units):
                open(f"{d}/u{i}.c", "w").write(u)
            n = len(units)
            cmds = []
            for i in range(n):
                tm = r.choice(["", "", "-ftls-model=global-dynamic", "-ftls-model=local-dynamic", "-ftls-model=initial-exec"])      # every model is valid in an executable
                pic = r.choice(["-fPIE", "-fPIC"])
                cmds.append(f"gcc -O1 {pic} {tm} {'-DDYN' if i == n - 1 else ''} -c u{i}.c -o pie{i}.o")
                cmds.append(f"gcc -O1 {pic} {tm} -c u{i}.c -o spie{i}.o")
                cmds.append(f"gcc -O1 -fno-pic -fno-pie {tm} {'-DDYN' if i == n - 1 else ''} -c u{i}.c -o nop{i}.o")
                cmds.append(f"gcc -O1 -fno-pic -fno-pie {tm} -c u{i}.c -o st{i}.o")
            rc, out = sh(f"cd {d} && " + " && ".join(cmds), timeout=600)
            if rc:
                chk.tie_break("gcc failed on a generated program", {"seeds": [seed], "msg": out[-400:]})
                continue
            stats["programs"] += 1
            results = {}
            for v in variants(r, 10 if chk.tier == "quick" else 40):
                pre = {"static": "st", "static-pie": "spie", "pie": "pie", "nopie": "nop"}[v["kind"]]
                objs = " ".join(f"{pre}{i}.o" for i in range(n))
                flags = {"static": "-static", "static-pie": "-static-pie", "pie": "-pie -Wl,--export-dynamic", "nopie": "-no-pie -Wl,--export-dynamic"}[v["kind"]]
                wl = []
                if v["relax"]:
                    wl.append(v["relax"])
                if v["relr"] and v["kind"] != "static":
                    wl += ["-z", v["relr"]]
                if v["hash"] and v["kind"] in ("pie", "nopie"):
                    wl.append(f"--hash-style={v['hash']}")
                if v["buildid"]:
                    wl.append(f"--build-id={v['buildid']}")
                if v["merge"]:
                    wl.append(v["merge"])
                if v["now"] and v["kind"] in ("pie", "nopie"):
                    wl += ["-z", v["now"]]
                rep = {"seeds": [seed], "variant": v}
                rc, out = sh(f"cd {d} && rm -f prog && gcc -B{d}/bin {flags} {objs} -o prog " + " ".join(f"-Wl,{x}" for x in wl), timeout=300)
                stats["variants"] += 1
                if rc:
                    stats["rejected"] += 1
                    chk.violation(f"linking fails under {wl or 'default options'} as {v['kind']} (seed {seed}): {out.strip()[-250:]}", rep)
                    continue
                stats["by_kind"][v["kind"]] = stats["by_kind"].get(v["kind"], 0) + 1
                e = elfread.Elf(f"{d}/prog")
                bad = []
                if v["relr"] == "pack-relative-relocs" and v["kind"] in ("pie", "static-pie"):
                    if e.section(".relr.dyn") is None or e.section(".relr.dyn")["size"] == 0:
                        bad.append("-z pack-relative-relocs given and no .relr.dyn")
                    else:
                        stats["relr_tables"] += 1
                if v["relr"] == "nopack-relative-relocs" and e.section(".relr.dyn") is not None and e.section(".relr.dyn")["size"]:
                    bad.append("-z nopack-relative-relocs given and a .relr.dyn exists")
                if v["kind"] in ("pie", "nopie") and v["hash"]:
                    g, sv = e.section(".gnu.hash") is not None, e.section(".hash") is not None
                    if (v["hash"] == "gnu" and (not g or sv)) or (v["hash"] == "sysv" and (g or not sv)) or (v["hash"] == "both" and not (g and sv)):
                        bad.append(f"--hash-style={v['hash']}: .gnu.hash {'present' if g else 'absent'}, .hash {'present' if sv else 'absent'}")
                    stats["gnu_only"] += int(v["hash"] == "gnu")
                    stats["sysv_only"] += int(v["hash"] == "sysv")
                if v["buildid"]:
                    note = e.section(".note.gnu.build-id")
                    stats["build_id_modes"][v["buildid"]] = stats["build_id_modes"].get(v["buildid"], 0) + 1
                    desc = None
                    if note is not None:
                        nd = e.data(note)
                        desc = nd[16:16 + int.from_bytes(nd[4:8], "little")]
                    if v["buildid"] == "none" and note is not None:
                        bad.append("--build-id=none and a build-id note exists")
                    elif v["buildid"] != "none" and not desc:
                        bad.append(f"--build-id={v['buildid']} and no build-id note")
                    elif v["buildid"].startswith("0x") and desc != bytes.fromhex(v["buildid"][2:]):
                        bad.append(f"--build-id={v['buildid']}: the note holds {desc.hex()}")
                    elif v["buildid"] == "uuid" and len(desc) != 16:
                        bad.append(f"--build-id=uuid: {len(desc)} bytes")
                stats["no_relax"] += int(v["relax"] == "--no-relax")
                stats["no_merge"] += int(v["merge"] is not None)
                if bad:
                    chk.violation(f"an option did not take effect (seed {seed}, {v['kind']}): " + "; ".join(bad), rep)
                rc, out = sh(f"cd {d} && timeout 20 ./prog", timeout=40)
                results.setdefault((rc, out), []).append(v)
            if len(results) > 1:
                ks = sorted(results.items(), key=lambda kv: -len(kv[1]))
                (rc0, out0), vs0 = ks[0]
                for (rc1, out1), vs1 in ks[1:]:
                    chk.violation(f"the program behaves differently under different optional settings (seed {seed}): exit {rc0} {out0.strip()[:40]!r} under {len(vs0)} variants, "
                                  f"but exit {rc1} {out1.strip()[:80]!r} under {vs1[0]}", {"seeds": [seed], "variant": vs1[0], "majority": vs0[0]})
    finally:
        shutil.rmtree(d, ignore_errors=True)
    chk.cov.update({
        "evaluations": stats["variants"], "distinct_nontrivial": stats["relr_tables"] + stats["no_relax"] + stats["no_merge"] + stats["sysv_only"],
        "rule": "3-5 units + main per program (function tables over 20-60 exported functions, shared/tail-overlapping string literals, packed structs with pointers at odd offsets, 70-300 "
                "consecutive pointers, three TLS flavours, cross-unit GOT data, constructor, dlsym of every exported name in dynamic kinds); 10 random + 4 corner variants (thorough: 40 + 4) over "
                "kind x relax x RELR x hash style x build-id x string merging x binding",
        "stats": stats,
    })
    return chk.finish(TRUSTED)
