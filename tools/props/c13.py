"""C13 — instruction immediate fields are encoded exactly and locally.
Theorems: coq/C13/Props.v (bit-slice reflection).  Tie: T2 through the pub API of linker-utils
(RelocationInstruction::{write_to_value, read_value}); table rows (bit-range widths) through the
compiled relocation tables."""
from wvlib import *

TRUSTED = [
    "Coq 8.16.1 kernel incl. vm_compute (no native_compute)",
    "axioms: none (Print Assumptions: Closed under the global context)",
    "model C13/Model.v hand-written from linker-utils/src/{aarch64,riscv64,loongarch64}.rs; field masks from the ISA manuals",
    "tie: wvh harness (pub API of linker-utils) vs model (vm_compute) on basis + random cases; relocation tables dumped from the compiled crate",
]

# name, id, harness name, neg flag, window bits, field mask, width, signed?, low zero bits
KINDS = [
    ("A_Adr", 0, "A64.Adr", 0, 32, 0x60FFFFE0, 21, True, 0),
    ("A_Movkz", 1, "A64.Movkz", 0, 32, 0x001FFFE0, 16, True, 0),
    ("A_MovnzPos", 2, "A64.Movnz", 0, 32, 0x601FFFE0, 16, False, 0),
    ("A_MovnzNeg", 3, "A64.Movnz", 1, 32, 0x601FFFE0, 16, False, 0),
    ("A_Ldr", 4, "A64.Ldr", 0, 32, 0x00FFFFE0, 19, True, 0),
    ("A_LdrRegister", 5, "A64.LdrRegister", 0, 32, 0x003FFC00, 12, False, 0),
    ("A_Add", 6, "A64.Add", 0, 32, 0x003FFC00, 12, False, 0),
    ("A_LdSt", 7, "A64.LdSt", 0, 32, 0x003FFC00, 12, True, 0),
    ("A_TstBr", 8, "A64.TstBr", 0, 32, 0x0007FFE0, 14, True, 0),
    ("A_Bcond", 9, "A64.Bcond", 0, 32, 0x00FFFFE0, 19, True, 0),
    ("A_JumpCall", 10, "A64.JumpCall", 0, 32, 0x03FFFFFF, 26, True, 0),
    ("R_Ui", 11, "RV.UiType", 0, 64, 0xFFF00000FFFFF000, 32, True, 0),
    ("R_U", 12, "RV.UType", 0, 32, 0xFFFFF000, 32, True, 0),
    ("R_I", 13, "RV.IType", 0, 32, 0xFFF00000, 12, True, 0),
    ("R_S", 14, "RV.SType", 0, 32, 0xFE000F80, 12, True, 0),
    ("R_B", 15, "RV.BType", 0, 32, 0xFE000F80, 13, True, 1),
    ("R_J", 16, "RV.JType", 0, 32, 0xFFFFF000, 21, True, 1),
    ("R_Cb", 17, "RV.CbType", 0, 16, 0x1C7C, 9, True, 1),
    ("R_Cj", 18, "RV.CjType", 0, 16, 0x1FFC, 12, True, 1),
    ("R_Clui", 19, "RV.CluiType", 0, 16, 0x107C, 18, True, 0),
    ("L_Shift5", 20, "LA.Shift5", 0, 32, 0x01FFFFE0, 20, False, 0),
    ("L_Shift10", 21, "LA.Shift10", 0, 32, 0x003FFC00, 12, False, 0),
    ("L_Branch21", 22, "LA.Branch21", 0, 32, 0x03FFFC1F, 21, True, 0),
    ("L_Branch26", 23, "LA.Branch26", 0, 32, 0x03FFFFFF, 26, True, 0),
    ("L_Call30", 24, "LA.Call30", 0, 64, 0x03FFFC0001FFFFE0, 28, False, 0),
    ("L_Call36", 25, "LA.Call36", 0, 64, 0x03FFFC0001FFFFE0, 36, False, 0),
]
KBY = {k[0]: k for k in KINDS}
M64 = (1 << 64) - 1

IMPORTS = """From Coq Require Import NArith List Bool. Import ListNotations.
From WV Require Import Base.BitReflect C13.Model.
Open Scope N_scope.
Definition ko (n : N) : kind := match kind_of_id n with Some k => k | None => A_Adr end.
Definition oget (o : option N) : N := match o with Some x => x | None => 18446744073709551616 end.
(* (idx, op, kind, a, b, impl) ; op 0 = write old=a value=b ; op 1 = read word=a *)
Definition model (c : N * N * N * N * N * N) : N :=
  let '(i, op, k, a, b, r) := c in
  match op with 0 => write (ko k) a b | _ => oget (read_any (ko k) a) end.
Definition bad (c : N * N * N * N * N * N) : bool := let '(i, op, k, a, b, r) := c in negb (model c =? r).
Definition show (c : N * N * N * N * N * N) := let '(i, op, k, a, b, r) := c in (i, model c).
"""


def sext(v, w):
    v &= (1 << w) - 1
    if v >> (w - 1) & 1:
        v |= M64 ^ ((1 << w) - 1)
    return v


def gen(chk):
    rng = chk.rng
    thorough = chk.tier == "thorough"
    cases = []  # (kindname, old, value)
    for name, kid, hn, neg, win, fm, width, signed, lz in KINDS:
        wmask = (1 << win) - 1
        olds = [0, wmask, fm, wmask ^ fm, 0x913FFC00 & wmask] + [1 << b for b in range(win)] + \
               [rng.getrandbits(win) for _ in range(24 if not thorough else 400)]
        vals = [0, 1, (1 << width) - 1, (1 << width) - 2, 1 << (width - 1)] + [1 << b for b in range(min(width + 3, 63))] + \
               [rng.getrandbits(width) for _ in range(24 if not thorough else 400)] + \
               [rng.getrandbits(rng.randrange(1, 63)) for _ in range(8 if not thorough else 100)]
        if name in ("R_U", "R_Ui", "R_Clui", "L_Call36"):
            vals += [0x800, 0x7ff, 0x801, 0x12345800, 0x123457ff, 0xfffff800 & ((1 << width) - 1), 0x8000, 0x7fff, 0x18000]
            vals = [x for x in vals if x < (1 << 63)]
        for o in olds:
            if name.startswith("A_Movnz"):
                # also the 64-bit MOVZ/MOVN opcodes the ABI allows
                pass
            for v in (vals if o in olds[:5] else rng.sample(vals, 6)):
                cases.append((name, o, v))
        if name.startswith("A_Movnz"):
            for base in (0xd2800000, 0x92800000):
                for _ in range(60):
                    o = base | rng.getrandbits(5) | (rng.getrandbits(2) << 21) | (rng.getrandbits(16) << 5)
                    cases.append((name, o, rng.getrandbits(16)))
    return list(dict.fromkeys(cases))


def canon(kinfo, v):
    name, kid, hn, neg, win, fm, width, signed, lz = kinfo
    v &= (1 << width) - 1
    return sext(v, width) if signed else v


def run(chk, replay=None):
    coq = coq_build(["Base", "C13"], ["C13/Props.v"])
    chk.add_coq(coq)
    ok, out, binp = harness_build(False)
    if not ok:
        chk.tie_break("harness does not build against /repo", out[-3000:])
        return chk.finish(TRUSTED)
    if replay:
        cases = [tuple(c) for c in json.load(open(replay))["replay"]["cases"]]
    else:
        cp = os.path.join(ROOT, "corpus", "C13.json")
        cases = ([tuple(c) for c in json.load(open(cp))] if os.path.exists(cp) else []) + gen(chk)
    # each case expands to: write(old,v), write(old with field cleared, v), read(new)
    lines = []
    for name, o, v in cases:
        k = KBY[name]
        lines.append(f"w {k[2]} {o} {v} {k[3]}")
        lines.append(f"w {k[2]} {o & ~k[5] & M64} {v} {k[3]}")
    res = run_impl(binp, "c13", lines)
    news = []
    for i, (name, o, v) in enumerate(cases):
        a, b = res[2 * i], res[2 * i + 1]
        news.append((a, b))
    rlines = []
    for (name, o, v), (a, b) in zip(cases, news):
        k = KBY[name]
        w = int(b.split()[0]) if b != "PANIC" else 0   # decode the write over a cleared field
        rlines.append(f"r {k[2]} {w}")
    rres = run_impl(binp, "c13", rlines)

    # ---- step 5: property predicate on the implementation ----
    hist = {}
    nontrivial = 0
    fails = {"local": [], "indep": [], "readback": [], "encode": []}
    for (name, o, v), (a, b), rr in zip(cases, news, rres):
        k = KBY[name]
        _, kid, hn, neg, win, fm, width, signed, lz = k
        in_range = v < (1 << width) and (v & ((1 << lz) - 1)) == 0
        old_ok = True
        if name.startswith("A_Movnz"):
            old_ok = (o & 0x9F800000) == 0x92800000
        if a == "PANIC" or b == "PANIC":
            if in_range:
                fails["local"].append((name, o, v, "PANIC"))
            continue
        na, ga = [int(x) for x in a.split()]
        nb, gb = [int(x) for x in b.split()]
        hist[name] = hist.get(name, 0) + 1
        if in_range:
            if (o & fm) != 0 and v != 0:
                nontrivial += 1
            if old_ok and ((na ^ o) & ~fm & M64 or ga != 1):
                fails["local"].append((name, o, v, na))
            if (na & fm) != (nb & fm):
                fails["indep"].append((name, o, v, na, nb))
            rv = int(rr.split()[0])
            want = canon(k, v)
            okrb = rv == want
            if name == "A_MovnzNeg":
                # value handed in is the low 16 bits of a negative number: decoder returns it sign-filled
                okrb = rv == (v | (M64 ^ 0xffff))
            elif name == "R_U":     # HI20 kinds store only the high part
                okrb = ((rv + 0x800) >> 12) & 0xfffff == ((v + 0x800) >> 12) & 0xfffff
            elif name == "R_Clui":
                okrb = ((rv + 0x800) >> 12) & 0x3f == ((v + 0x800) >> 12) & 0x3f
            elif name == "R_Ui":
                okrb = rv & 0xffffffff == v & 0xffffffff
            if not okrb:
                fails["readback"].append((name, o, v, nb, rv, want))
            # ISA-level decode of the HI20-style fields (independent of wild's read_value)
            enc_ok = True
            hi = (v + 0x800) >> 12
            if name == "R_U":
                enc_ok = (nb >> 12) & 0xfffff == hi & 0xfffff
            elif name == "R_Ui":
                enc_ok = (nb >> 12) & 0xfffff == hi & 0xfffff and (nb >> 52) & 0xfff == v & 0xfff
            elif name == "R_Clui":
                enc_ok = ((((nb >> 12) & 1) << 5) | ((nb >> 2) & 0x1f)) == hi & 0x3f
            if not enc_ok:
                fails["encode"].append((name, o, v, nb))
    known = {k["id"]: k for k in chk.known}

    def classify(kindname, which, o, v):
        for fid, k in known.items():
            if which in k["match"]["which"] and kindname in k["match"]["kinds"]:
                if fid == "C13-la-call36" and which == "local" and (v + 0x8000) >> 36 == 0:
                    continue   # only the carry-out class is known
                return fid
        return None

    for which, lst in fails.items():
        for f in lst:
            fid = classify(f[0], which, f[1], f[2])
            if fid:
                chk.known_hit(fid, f)
            else:
                chk.violation(f"C13 {which} fails for {f[0]}: old={f[1]:#x} value={f[2]:#x} -> {f[3:]}",
                              {"cases": [[f[0], f[1], f[2]]], "which": which, "detail": list(f)})

    # ---- table rows: bit-range width must fit the field ----
    dl = []
    for arch in ("aarch64", "riscv64", "loongarch64"):
        for t in range(0, 1400):
            dl.append(f"{arch} {t}")
    rows = run_impl(binp, "dump", dl)
    wide = []
    nrows = 0
    hn2k = {}
    for k in KINDS:
        hn2k.setdefault(k[2], k)
    for l, r in zip(dl, rows):
        if r == "-" or " M " not in r:
            continue
        nrows += 1
        f = r.split("|")[1].split()
        insn, lo, hi = f[1], int(f[2]), int(f[3])
        k = hn2k.get(insn)
        if k is None:
            chk.tie_break("relocation table uses an instruction kind the model does not have", l + " " + r)
            continue
        if hi - lo > k[6] and not insn.startswith("RV."):
            wide.append((l, insn, lo, hi, k[6]))
    for w in wide:
        fid = None
        for kid, k in known.items():
            if "wide_row" in k["match"]["which"] and w[0] in k["match"].get("rows", []):
                fid = kid
        if fid:
            chk.known_hit(fid, w)
        else:
            chk.violation(f"relocation table row {w[0]} hands {w[3]-w[2]} bits to {w[1]} whose field holds {w[4]}",
                          {"row": w[0], "insn": w[1], "range": [w[2], w[3]]})

    # ---- step 4: model vs implementation ----
    items = []
    idx = 0
    for (name, o, v), (a, b), rr in zip(cases, news, rres):
        k = KBY[name]
        if a != "PANIC":
            na = int(a.split()[0])
            items.append(f"({idx},0,{k[1]},{o},{v},{na})")
            items.append(f"({idx},1,{k[1]},{int(b.split()[0])},0,{int(rr.split()[0])})")
        idx += 1
    nsh = NCPU
    bodies = []
    for s in range(nsh):
        part = items[s::nsh]
        bodies.append("Definition cases : list (N * N * N * N * N * N) := [\n" + ";\n".join(part) +
                      "].\nEval vm_compute in map show (filter bad cases).\n")
    mism = []
    for rc, out in coq_eval_sharded("c13", IMPORTS, bodies):
        if rc != 0:
            chk.tie_break("model evaluation failed (coqc)", out[-2000:])
            continue
        mism += parse_coq_value(out)
    for m in mism[:30]:
        c = cases[m[0]]
        chk.tie_break("model/implementation disagree", {"case": list(c), "model": m[1], "impl_write": news[m[0]][0], "impl_read": rres[m[0]]})
    chk.cov.update({
        "evaluations": len(lines) + len(rlines), "distinct_nontrivial": nontrivial,
        "rule": "per kind: old words {0, all-ones, field, ~field, single bits, random} x values {0,1,max,single bits incl. 2 above the width, random in range, random wide}; "
                "each written twice (old, old with field cleared) and decoded; non-trivial = in-range non-zero value over a non-zero prior field",
        "per_kind": hist, "model_impl_mismatches": len(mism), "table_rows_with_bitmask": nrows,
        "property_failures_on_impl": {k: len(v) for k, v in fails.items()}, "wide_rows": [w[0] for w in wide],
        "samples": [{"kind": c[0], "old": hex(c[1]), "value": hex(c[2]), "impl": n[0]} for c, n in list(zip(cases, news))[::max(1, len(cases) // 6)][:6]],
    })
    chk.assumptions = TRUSTED
    return chk.finish(TRUSTED)
