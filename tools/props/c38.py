"""C38 — every function and object has one address across modules.
Theorems: coq/C38/Props.v (with the executable first in the loader's search order and wild's dynsym entries for the
executable — copy-relocated definition, canonical PLT value, plain import — every module observes the same address for
every symbol; refuted if the executable does not announce its link-time binding).
Tie T2 end to end: generated C programs — an executable and two shared libraries that define functions and objects
(sizes 4..4096, various alignments, some weak, some with aliases) and refer to each other's in both directions — are
compiled as non-PIC/non-PIE, PIE and PIE with -fno-plt, linked by wild (gcc -B), with lazy and -z now binding, and RUN:
every module reports the address it sees for every shared symbol and the value it reads after another module wrote;
the program fails on the first disagreement.  Static side: the executable's .dynsym entry for every library symbol
(defined copy / undefined with value / plain import) is compared with C38.Model.exe_entry."""
from wvlib import *
import tempfile, shutil
import elfread

TRUSTED = [
    "Coq 8.16.1 kernel incl. vm_compute; axioms: none",
    "the dynamic loader is modelled as first-match lookup in load order with the executable first (glibc's default scope); symbol versions, dlopen scopes, LD_PRELOAD and protected visibility are not modelled",
    "how the executable refers to a symbol is fixed by the compiler flags of the generated program (-fno-pic: direct; -fPIE: through the GOT) and checked against the relocations gcc emitted only "
    "indirectly (the dynsym comparison)",
    "glibc 2.36's ld.so runs the programs",
]

IMPORTS = """From Coq Require Import ZArith List Bool. Import ListNotations.
From WV Require Import C38.Model.
Open Scope Z_scope.
Definition K (n : nat) := match n with 0%nat => Func | _ => Object end.
Definition H (n : nat) := match n with 0%nat => NoRef | 1%nat => ThroughGot | 2%nat => CallOnly | _ => DirectAddress end.
Definition cls (e : dyn_entry) : Z := match e with Absent => 0 | Defined _ => 1 | Canonical _ => 2 | Import => 3 end.
Definition E (k home how : nat) := cls (exe_entry {| skind := K k; home := home; home_addr := 4096; how := H how; exe_slot := 8192 |}).
"""


def gen_program(rng):
    syms = []
    for i in range(rng.randrange(4, 10)):
        kind = rng.choice(["func", "object", "object"])
        syms.append({"name": f"s{i}", "kind": kind, "home": rng.choice(["a", "a", "b", "exe"]), "size": rng.choice([4, 8, 100, 4096]) if kind == "object" else 0,
                     "align": rng.choice([4, 8, 16, 64]), "weak": rng.random() < 0.15, "alias": rng.random() < 0.15 and kind == "object",
                     "exe_use": rng.choice(["addr", "addr", "call", "none"])})
        s_ = syms[-1]
        # a third of the library functions are STT_GNU_IFUNC (what glibc does for strlen, memcpy, ...)
        # (only in lib a: lib b is linked against lib a, not the other way round, and glibc wants the library that
        #  refers to an IFUNC symbol to be relocated after the one that defines it)
        s_["ifunc"] = kind == "func" and s_["home"] == "a" and rng.random() < 0.5
        if s_["ifunc"]:
            s_["weak"] = False
    return syms


def sources(syms):
    decl = []
    for s in syms:
        if s["kind"] == "func":
            decl.append(f"extern int {s['name']}(int);")
        else:
            decl.append(f"extern int {s['name']}[{max(1, s['size'] // 4)}];")
    files = {}
    for mod in ("a", "b", "exe"):
        src = ["#include <stdint.h>", "#include <stdio.h>"] + decl
        for s in syms:
            if s["home"] == mod:
                w = "__attribute__((weak)) " if s["weak"] else ""
                if s["kind"] == "func" and s.get("ifunc"):
                    src.append(f"static int {s['name']}_impl(int x) {{ return x + {hash(s['name']) % 97}; }}")
                    src.append(f"static int (*{s['name']}_resolver(void))(int) {{ return {s['name']}_impl; }}")
                    src.append(f"int {s['name']}(int) __attribute__((ifunc(\"{s['name']}_resolver\")));")
                elif s["kind"] == "func":
                    src.append(f"{w}int {s['name']}(int x) {{ return x + {hash(s['name']) % 97}; }}")
                else:
                    src.append(f"{w}int {s['name']}[{max(1, s['size'] // 4)}] __attribute__((aligned({s['align']}))) = {{ {hash(s['name']) % 1000 + 1} }};")
                    if s["alias"]:
                        src.append(f"extern int {s['name']}_alias[{max(1, s['size'] // 4)}] __attribute__((alias(\"{s['name']}\")));")
        # this module's views
        for s in syms:
            if mod == "exe" and s["exe_use"] == "none" and s["home"] != "exe":
                continue
            if mod == "exe" and s["exe_use"] == "call" and s["kind"] == "func" and s["home"] != "exe":
                src.append(f"int call_{mod}_{s['name']}(int x) {{ return {s['name']}(x); }}")
                continue
            src.append(f"uintptr_t view_{mod}_{s['name']}(void) {{ return (uintptr_t)&{s['name']}{'[0]' if s['kind'] == 'object' else ''}; }}")
            if s["kind"] == "object":
                src.append(f"int get_{mod}_{s['name']}(void) {{ return {s['name']}[0]; }}")
                src.append(f"void set_{mod}_{s['name']}(int v) {{ {s['name']}[0] = v; }}")
                if s["alias"] and s["home"] == mod:
                    src.append(f"int geta_{mod}_{s['name']}(void) {{ return {s['name']}_alias[0]; }}")
            else:
                src.append(f"int call_{mod}_{s['name']}(int x) {{ return {s['name']}(x); }}")
                # ... and through the address this module computes for it
                src.append(f"int callp_{mod}_{s['name']}(int x) {{ int (*volatile p)(int) = {s['name']}; return p(x); }}")
        files[mod] = src
    m = files["exe"]
    for mod in ("a", "b"):
        for s in syms:
            m.append(f"extern uintptr_t view_{mod}_{s['name']}(void);")
            if s["kind"] == "object":
                m.append(f"extern int get_{mod}_{s['name']}(void); extern void set_{mod}_{s['name']}(int);")
                if s["alias"] and s["home"] == mod:
                    m.append(f"extern int geta_{mod}_{s['name']}(void);")
            else:
                m.append(f"extern int call_{mod}_{s['name']}(int); extern int callp_{mod}_{s['name']}(int);")
    m.append("int main(void) { int bad = 0;")
    for s in syms:
        mods = ["a", "b"] + (["exe"] if not (s["home"] != "exe" and s["exe_use"] in ("none",) or (s["exe_use"] == "call" and s["kind"] == "func" and s["home"] != "exe")) else [])
        views = [f"view_{mod}_{s['name']}()" for mod in mods]
        m.append(f"  {{ uintptr_t v0 = {views[0]};")
        for mod, v in zip(mods[1:], views[1:]):
            m.append(f"    if ({v} != v0) {{ printf(\"ADDRESS {s['name']} {mods[0]}=%lx {mod}=%lx\\n\", (unsigned long)v0, (unsigned long){v}); bad = 1; }}")
        if s["kind"] == "object":
            m.append(f"    if (v0 % {s['align']}) {{ printf(\"ALIGN {s['name']} %lx\\n\", (unsigned long)v0); bad = 1; }}")
            init = hash(s["name"]) % 1000 + 1
            for mod in mods:
                m.append(f"    if (get_{mod}_{s['name']}() != {init}) {{ printf(\"INIT {s['name']} seen by {mod}: %d\\n\", get_{mod}_{s['name']}()); bad = 1; }}")
            for k, wmod in enumerate(mods):
                val = 5000 + k
                m.append(f"    set_{wmod}_{s['name']}({val});")
                for rmod in mods:
                    m.append(f"    if (get_{rmod}_{s['name']}() != {val}) {{ printf(\"WRITE {s['name']} by {wmod} not seen by {rmod}\\n\"); bad = 1; }}")
                if s["alias"] and s["home"] in ("a", "b"):
                    m.append(f"    if (geta_{s['home']}_{s['name']}() != {val}) {{ printf(\"ALIAS {s['name']} by {wmod} not seen through the alias in {s['home']}\\n\"); bad = 1; }}")
        else:
            want = f"7 + {hash(s['name']) % 97}"
            for mod in ["a", "b", "exe"]:
                if mod == "exe" and s["home"] != "exe" and s["exe_use"] == "none":
                    continue
                m.append(f"    if (call_{mod}_{s['name']}(7) != {want}) {{ printf(\"CALL {s['name']} from {mod}\\n\"); bad = 1; }}")
                if not (mod == "exe" and s["home"] != "exe" and s["exe_use"] == "call"):
                    m.append(f"    if (callp_{mod}_{s['name']}(7) != {want}) {{ printf(\"CALL-THROUGH-POINTER {s['name']} from {mod}\\n\"); bad = 1; }}")
        m.append("  }")
    m.append("  puts(bad ? \"MISMATCH\" : \"ALL-SAME\"); return bad; }")
    return {k: "\n".join(v) + "\n" for k, v in files.items()}


MODES = {
    "nonpie": (["-fno-pic", "-fno-pie"], ["-no-pie"], 3),
    "pie": (["-fPIE"], ["-pie"], 1),
    "pie-noplt": (["-fPIE", "-fno-plt"], ["-pie"], 1),
}


def run(chk, replay=None):
    coq = coq_build(["C38"], ["C38/Props.v"])
    chk.add_coq(coq)
    okw, outw, wild = wild_build()
    if not okw:
        chk.tie_break("wild does not build", outw[-2000:])
        return chk.finish(TRUSTED)
    rng = chk.rng
    os.environ["PYTHONHASHSEED"] = "0"
    seeds = [rng.randrange(1 << 30) for _ in range(6 if chk.tier == "quick" else 60)]
    if replay:
        seeds = json.load(open(replay))["replay"]["seeds"]
    known = {k["id"] for k in chk.known}
    stats = {"programs": 0, "runs": 0, "symbols": 0, "copy_relocated": 0, "canonical_plt": 0, "imports": 0, "model_mismatch": 0, "link_failures": 0}
    items, expect = [], []
    d = tempfile.mkdtemp(prefix="c38")
    try:
        os.makedirs(f"{d}/bin")
        os.symlink(wild, f"{d}/bin/ld")
        for seed in seeds:
            r = random.Random(seed)
            syms = gen_program(r)
            # python's hash() of str is salted per process; derive stable constants instead
            import zlib
            global hash
            hash_backup = hash
            hash = lambda x: zlib.crc32(str(x).encode())
            try:
                src = sources(syms)
            finally:
                hash = hash_backup
            for mod, text in src.items():
                open(f"{d}/{mod}.c", "w").write(text)
            stats["programs"] += 1
            for mode, (cflags, lflags, how) in MODES.items():
                for now in (False, True):
                    rep = {"seeds": [seed], "mode": mode, "bind_now": now}
                    cmd = (f"cd {d} && rm -f *.o lib*.so main && gcc -O1 -fPIC -c a.c -o a.o && gcc -O1 -fPIC -c b.c -o b.o && gcc -O1 {' '.join(cflags)} -c exe.c -o exe.o && "
                           f"gcc -B{d}/bin -shared a.o -o liba.so -Wl,-z,{'now' if now else 'lazy'} && gcc -B{d}/bin -shared b.o -o libb.so -L. -la -Wl,-z,{'now' if now else 'lazy'} && "
                           f"gcc -B{d}/bin {' '.join(lflags)} exe.o -o main -L. -la -lb -Wl,-rpath,{d} -Wl,--export-dynamic -Wl,-z,{'now' if now else 'lazy'}")
                    rc, out = sh(cmd, timeout=300)
                    if rc != 0:
                        stats["link_failures"] += 1
                        # a library that needs a symbol only the executable defines cannot be linked with -z defs; we do not pass it, so a failure is unexpected
                        chk.violation(f"building the program fails (seed {seed}, {mode}): {out.strip()[-300:]}", rep)
                        continue
                    rc, out = sh(f"cd {d} && LD_LIBRARY_PATH={d} timeout 20 ./main", timeout=40)
                    stats["runs"] += 1
                    if rc != 0 or "ALL-SAME" not in out:
                        lines = [l for l in out.splitlines() if l and l != "MISMATCH"]
                        # known finding: a library function whose address the non-PIC executable takes directly (no canonical PLT entry)
                        rest = []
                        for l in lines:
                            mm = re.match(r"ADDRESS (s\d+) \w+=[0-9a-f]+ exe=[0-9a-f]+$", l)
                            sy = next((x for x in syms if mm and x["name"] == mm.group(1)), None)
                            if sy and mode == "nonpie" and sy["kind"] == "func" and sy["home"] != "exe" and sy["exe_use"] == "addr" and "C38-no-canonical-plt" in known:
                                chk.known_hit("C38-no-canonical-plt", dict(rep, line=l, symbol=sy))
                            else:
                                rest.append(l)
                        lines = rest
                        if not lines and rc == 1:
                            lines = None
                    else:
                        lines = None
                    if lines is not None:
                        chk.violation(f"modules disagree about an address or a value (seed {seed}, {mode}{', -z now' if now else ''}, exit {rc}): " + "; ".join(lines[:4]), dict(rep, output=out[-1500:]))
                    # static side
                    e = elfread.Elf(f"{d}/main")
                    dyn = {s["name"]: s for s in e.symbols(".dynsym")}
                    for s in syms:
                        if s["home"] == "exe":
                            continue
                        stats["symbols"] += 1
                        use = s["exe_use"]
                        if use == "none":
                            h = 0
                        elif use == "call" and s["kind"] == "func":
                            h = 2
                        elif s["kind"] == "object":
                            h = 3            # gcc reads external data directly in non-PIC and in PIE code alike (copy relocation)
                        else:
                            h = how          # address of a function: direct in non-PIC code, through the GOT in PIE
                        ent = dyn.get(s["name"])
                        c = 0 if ent is None else (1 if ent["shndx"] != 0 else (2 if ent["value"] != 0 else 3))
                        stats["copy_relocated"] += int(c == 1)
                        stats["canonical_plt"] += int(c == 2)
                        stats["imports"] += int(c == 3)
                        items.append(f"E {0 if s['kind'] == 'func' else 1} 1 {h}")
                        expect.append((c, dict(rep, symbol=s)))
    finally:
        shutil.rmtree(d, ignore_errors=True)
    if items:
        uniq = sorted(set(items))
        rc_, o = coq_eval("c38", "Eval vm_compute in [\n" + ";\n".join(uniq) + "].\n", IMPORTS)
        mres = parse_coq_value(o) if rc_ == 0 else None
        if mres is None or len(mres) != len(uniq):
            chk.tie_break("model evaluation failed", o[-800:])
        else:
            table = dict(zip(uniq, mres))
            names = {0: "absent", 1: "a definition (copy relocation)", 2: "undefined with a value (canonical PLT)", 3: "a plain import"}
            for it, (c, rep) in zip(items, expect):
                if table[it] != c:
                    stats["model_mismatch"] += 1
                    chk.tie_break(f"correspondence C38.exe_entry: the executable's .dynsym has {names[c]} for {rep['symbol']['name']}, the model says {names[table[it]]}", rep)
    chk.cov.update({
        "evaluations": stats["runs"], "distinct_nontrivial": stats["copy_relocated"] + stats["canonical_plt"],
        "rule": "4-9 shared symbols per program (functions — a third of the library ones STT_GNU_IFUNC —, objects of 4..4096 bytes, alignments 4..64, 15% weak, 15% with an alias) defined by lib a, lib b or the executable; the executable "
                "takes addresses (and calls through them) / reads data, only calls, or ignores each; built non-PIC/non-PIE, PIE, PIE -fno-plt, each with lazy and -z now binding; linked by wild through gcc -B; run",
        "stats": stats,
    })
    return chk.finish(TRUSTED)
