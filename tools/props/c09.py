"""C09 — position-independent outputs are correct at any load address (and C23's relative-relocation obligation).
Theorems: coq/C09/Props.v.  Tie T2 end to end: generated objects whose writable sections of alignment 1/2/4/8 hold
pointer words at odd and even offsets (to functions, data, section starts with addends, linker-defined symbols such as
__executable_start/_end/__bss_start) are linked as -pie and -shared, with and without -z pack-relative-relocs; a
loader written here (RELA R_X86_64_RELATIVE/64/GLOB_DAT + the generic RELR decoder with bitmap entries) applies the
output's dynamic relocations at two bases.  Checked on the real file: every pointer word = its link-time target +
base; each is covered by exactly one dynamic relocation; every RELR entry is even, lies in a writable PT_LOAD and
decodes to a word that holds an in-image address; the RELR/RELA choice per site equals the model's write_relr."""
from wvlib import *
import tempfile, shutil, struct
import elfread

TRUSTED = [
    "Coq 8.16.1 kernel incl. vm_compute; axioms: none",
    "C09/Model.v: the loader is a specification (RELA R_*_RELATIVE and glibc's RELR decoding); tools/props/c09.py implements the same decoder independently for the real files",
    "address sites of the real links are the generated pointer words (their targets are known by construction); GOT slots and other linker-made address words are covered only by the generic checks on RELR entries",
    "symbolic relocations against preemptible symbols (R_X86_64_64 with a dynsym index) are applied with the output's own definitions (no interposition)",
]

LINKER_SYMS = ["__executable_start", "__ehdr_start", "_end", "_edata", "_etext"]


def gen_program(rng):
    """sections: list of (name, align, items) where items = ('byte',) | ('ptr', target, addend); returns asm + site list"""
    nfun = rng.randrange(2, 6)
    src = [".text", ".globl _start", ".type _start,@function", "_start: ret"]
    for i in range(nfun):
        src += [f".globl fn{i}", f".type fn{i},@function", f"fn{i}: ret"]
    src += [".data", ".globl dat0", "dat0: .quad 0x1111", ".globl dat1", "dat1: .quad 0x2222"]
    sites = []
    k = 0
    for si in range(rng.randrange(2, 7)):
        al = rng.choice([1, 1, 2, 4, 8, 8])
        src.append(f'.section .data.s{si},"aw",@progbits')
        src.append(f".balign {al}")
        for _ in range(rng.randrange(1, 6)):
            r = rng.random()
            if r < 0.35:
                src.append(" .byte 0x5a")
            else:
                kind = rng.random()
                if kind < 0.5:
                    tgt = f"fn{rng.randrange(nfun)}"
                elif kind < 0.75:
                    tgt = rng.choice(["dat0", "dat1", "_start"])
                else:
                    tgt = rng.choice(LINKER_SYMS)
                add = rng.choice([0, 0, 0, 1, 8, 24])
                src += [f".globl site{k}", f".hidden site{k}", f"site{k}:", f" .quad {tgt}+{add}"]
                sites.append((k, tgt, add, al))
                k += 1
    # the lowest address of the image is an address like any other (and is 0 at link time in a PIE or shared object)
    if rng.random() < 0.7:
        al = rng.choice([1, 8])
        src += ['.section .data.image_start,"aw",@progbits', f".balign {al}"] + ([" .byte 0x5a"] if al == 1 else [])
        for tgt in rng.sample(["__ehdr_start", "__executable_start"], rng.randrange(1, 3)):
            src += [f".globl site{k}", f".hidden site{k}", f"site{k}:", f" .quad {tgt}"]
            sites.append((k, tgt, 0, al))
            k += 1
    return "\n".join(src) + "\n", sites


class Image:
    def __init__(self, path):
        self.e = e = elfread.Elf(path)
        self.mem = {}
        self.writable = []
        top = 0
        for p in e.phdrs:
            if p["type"] == 1:
                data = e.b[p["offset"]:p["offset"] + p["filesz"]]
                for i, byte in enumerate(data):
                    self.mem[p["vaddr"] + i] = byte
                for i in range(p["filesz"], p["memsz"]):
                    self.mem[p["vaddr"] + i] = 0
                top = max(top, p["vaddr"] + p["memsz"])
                if p["flags"] & 2:
                    self.writable.append((p["vaddr"], p["vaddr"] + p["memsz"]))
        self.top = top
        self.dyn = dict()
        for tag, val in e.dynamic():
            self.dyn.setdefault(tag, val)
        self.syms = {s["name"]: s["value"] for s in e.symbols(".symtab") if s["name"]}
        self.dynsyms = e.symbols(".dynsym")

    def word(self, mem, a):
        return int.from_bytes(bytes(mem.get(a + i, 0) for i in range(8)), "little")

    def put(self, mem, a, v):
        for i, byte in enumerate((v & ((1 << 64) - 1)).to_bytes(8, "little")):
            mem[a + i] = byte

    def relocs(self):
        """(rela entries [(place, type, sym, addend)], relr entries [raw words])"""
        rela = []
        if 7 in self.dyn and self.dyn.get(8):
            off = self.e.vaddr_to_off(self.dyn[7])
            for i in range(self.dyn[8] // 24):
                o, info, add = struct.unpack_from("<QQq", self.e.b, off + 24 * i)
                rela.append((o, info & 0xffffffff, info >> 32, add))
        if 23 in self.dyn and self.dyn.get(2):          # DT_JMPREL / DT_PLTRELSZ
            off = self.e.vaddr_to_off(self.dyn[23])
            for i in range(self.dyn[2] // 24):
                o, info, add = struct.unpack_from("<QQq", self.e.b, off + 24 * i)
                rela.append((o, info & 0xffffffff, info >> 32, add))
        relr = []
        if 36 in self.dyn and self.dyn.get(35):         # DT_RELR / DT_RELRSZ
            off = self.e.vaddr_to_off(self.dyn[36])
            relr = [struct.unpack_from("<Q", self.e.b, off + 8 * i)[0] for i in range(self.dyn[35] // 8)]
        return rela, relr

    @staticmethod
    def relr_places(relr):
        out = []
        where = 0
        for ent in relr:
            if ent & 1 == 0:
                out.append(ent)
                where = ent + 8
            else:
                bits = ent >> 1
                for i in range(63):
                    if (bits >> i) & 1:
                        out.append(where + 8 * i)
                where += 8 * 63
        return out

    def load(self, base):
        mem = dict(self.mem)
        rela, relr = self.relocs()
        touched = {}
        for (o, ty, sym, add) in rela:
            if ty == 8:
                self.put(mem, o, base + add)
            elif ty in (1, 6, 7):
                s = self.dynsyms[sym] if sym < len(self.dynsyms) else None
                val = (s["value"] + base) if (s and s["shndx"] != 0) else 0
                self.put(mem, o, val + (add if ty == 1 else 0))
            elif ty == 37:
                self.put(mem, o, base + add)       # the resolver is not run; only coverage matters here
            else:
                continue
            touched[o] = touched.get(o, 0) + 1
        for a in self.relr_places(relr):
            self.put(mem, a, self.word(mem, a) + base)
            touched[a] = touched.get(a, 0) + 1
        return mem, touched


def run(chk, replay=None):
    coq = coq_build(["C09"], ["C09/Props.v"])
    chk.add_coq(coq)
    okw, outw, wild = wild_build()
    if not okw:
        chk.tie_break("wild does not build", outw[-2000:])
        return chk.finish(TRUSTED)
    rng = chk.rng
    seeds = [rng.randrange(1 << 30) for _ in range(25 if chk.tier == "quick" else 250)]
    if replay:
        seeds = json.load(open(replay))["replay"]["seeds"]
    known = {k["id"] for k in chk.known}
    stats = {"programs": 0, "links": 0, "sites": 0, "sites_odd_address": 0, "sites_in_align1": 0, "relr_entries": 0, "rela_relative": 0, "model_mismatch": 0, "link_failures": 0}
    model_items = []
    model_expect = []
    d = tempfile.mkdtemp(prefix="c09")
    try:
        for seed in seeds:
            r = random.Random(seed)
            src, sites = gen_program(r)
            open(d + "/p.s", "w").write(src)
            rc, out = sh(f"cd {d} && as --64 p.s -o p.o", timeout=60)
            if rc != 0:
                chk.tie_break("as failed on a generated object", {"seeds": [seed], "msg": out[-300:]})
                continue
            stats["programs"] += 1
            for kind, flags in (("pie", ["-pie"]), ("shared", ["-shared"])):
                for relr_on in (False, True):
                    fl = flags + (["-z", "pack-relative-relocs"] if relr_on else []) + ["--no-gc-sections"]
                    rep = {"seeds": [seed], "flags": fl}
                    rc, out = sh(f"cd {d} && rm -f out && timeout 60 {wild} p.o -o out {' '.join(fl)}", timeout=90)
                    stats["links"] += 1
                    if rc != 0:
                        stats["link_failures"] += 1
                        chk.violation(f"a valid position-independent link fails (seed {seed}, {' '.join(fl)}): {out.strip()[-220:]}", rep)
                        continue
                    im = Image(d + "/out")
                    rela, relr = im.relocs()
                    places = Image.relr_places(relr)
                    stats["relr_entries"] += len(relr)
                    stats["rela_relative"] += sum(1 for x in rela if x[1] == 8)
                    loads = [(b, im.load(b)) for b in (0x10000, 0x7f1234560000)]
                    for (k, tgt, add, al) in sites:
                        stats["sites"] += 1
                        place = im.syms.get(f"site{k}")
                        tv = im.syms.get(tgt)
                        if place is None or tv is None:
                            chk.tie_break("a generated symbol is missing from the output's symtab", dict(rep, symbol=f"site{k}/{tgt}"))
                            continue
                        stats["sites_odd_address"] += place & 1
                        stats["sites_in_align1"] += int(al == 1)
                        for base, (mem, touched) in loads:
                            got = im.word(mem, place)
                            want = (tv + add + base) & ((1 << 64) - 1)
                            if got != want:
                                chk.violation(f"after loading at base {base:#x} the word at site{k} ({place:#x}, `.quad {tgt}+{add}`) holds {got:#x}, not {want:#x} "
                                              f"({kind}{' with RELR' if relr_on else ''}, seed {seed})", dict(rep, site=k, target=tgt, addend=add, base=base, got=got, want=want))
                                break
                            if touched.get(place, 0) != 1:
                                chk.violation(f"site{k} ({place:#x}) is covered by {touched.get(place, 0)} dynamic relocations ({kind}{' with RELR' if relr_on else ''}, seed {seed})",
                                              dict(rep, site=k, count=touched.get(place, 0)))
                                break
                        # the RELR/RELA choice against the model
                        in_relr = place in places
                        if not in_relr and not any(o == place and ty == 8 for (o, ty, sym, add_) in rela):
                            continue          # a symbolic relocation (preemptible target in a shared object): not a relative site
                        model_items.append(f"write_relr {'true' if relr_on else 'false'} {al} {place}")
                        model_expect.append((in_relr, dict(rep, site=k, place=place, align=al)))
                    for a in places:
                        ok_w = any(lo <= a and a + 8 <= hi for lo, hi in im.writable)
                        val = im.word(im.mem, a)
                        if a & 1 or not ok_w or not (0 <= val < im.top + 0x1000):
                            chk.violation(f"RELR entry decodes to {a:#x}, which is {'odd' if a & 1 else 'not a writable word holding an in-image address'} (value {val:#x}; seed {seed}, {' '.join(fl)})", rep)
                            break
    finally:
        shutil.rmtree(d, ignore_errors=True)
    if model_items:
        rc_, out = coq_eval("c09", "Eval vm_compute in [\n" + ";\n".join(model_items) + "].\n",
                            "From Coq Require Import NArith List Bool. Import ListNotations.\nFrom WV Require Import C09.Model.\nOpen Scope N_scope.\n")
        mres = parse_coq_value(out) if rc_ == 0 else None
        if mres is None or len(mres) != len(model_items):
            chk.tie_break("model evaluation failed", out[-800:])
        else:
            for mv, (got, rep) in zip(mres, model_expect):
                if bool(mv) != got:
                    stats["model_mismatch"] += 1
                    chk.tie_break("correspondence C09.write_relr: wild's RELR/RELA choice for a site differs from the model", dict(rep, model_relr=mv, wild_relr=got))
    chk.cov.update({
        "evaluations": stats["sites"] * 2, "distinct_nontrivial": stats["sites_odd_address"],
        "rule": "one object per program: 2-6 writable sections of alignment 1/2/4/8 with bytes and `.quad target+addend` words (functions, data, _start, linker-defined symbols); linked -pie and "
                "-shared, each with and without -z pack-relative-relocs, --no-gc-sections; loaded at bases 0x10000 and 0x7f1234560000; non-trivial = sites at odd addresses",
        "stats": stats,
    })
    return chk.finish(TRUSTED)
