"""C01 — relocated values are correct at run time.
Theorem: coq/C01/Props.v (for every class of reference — absolute, pc-relative, GOT, PLT, TLS local-exec /
initial-exec / general-dynamic / local-dynamic — every layout, addend, load base and TLS placement, the address the
running program computes is where the definition is at run time plus the addend).
Tie T2 end to end (x86-64): generated assembly modules define data arrays, functions and TLS arrays whose contents
are markers (symbol number, element index) and export one accessor per (symbol, element, relocation form) that
returns the address it computes: .quad sym+A tables, lea sym+A(%rip), sym@GOTPCREL, .long sym+A-., movabs / mov $imm
(non-PIC), calls through sym@PLT, function pointers from tables and GOT, @tpoff, @gottpoff, @tlsgd, @tlsdesc, @tlsld+@dtpoff;
definitions in the same object, another object, an archive member, a shared library (imports, copy relocations), with
default / hidden / protected visibility, weak undefined.  A C driver checks that every accessor's address holds the
marker it must hold (or the function returns its id), that all forms agree, and that weak undefined is 0.  Built as
static, static-PIE, PIE (with and without a shared library providing half of the definitions), and as a shared library
used by a PIE; linked by wild (gcc -B) and RUN.  The same programs linked by GNU ld validate the harness.
Model side: the program prints every address it computed and two anchors; with the load base and the TLS block start
derived from the anchors and the symbol values read back from wild's output, C01.Model.actual (evaluated in Coq) must
give exactly the printed address for every accessor of every symbol of the main module."""
from wvlib import *
import tempfile, shutil
import elfread

TRUSTED = [
    "Coq 8.16.1 kernel incl. vm_compute; axioms: none",
    "x86-64 only at run time (no AArch64 emulator in the sandbox; AArch64 field encodings are C13's subject); glibc 2.36 is the loader and provides __tls_get_addr",
    "the model covers the executable's own TLS module (static TLS block); dlopen'ed modules' dynamic TLS blocks are outside",
    "instruction relaxation may replace a GOT load or a TLS sequence by an equivalent form (C14); the run-time check does not care which form survives",
]

NEL = 6


def marker(n, i):
    return 0x1000 * (n + 1) + i + 1


def gen(rng):
    nd, nf, nt = rng.randrange(3, 7), rng.randrange(2, 5), rng.randrange(1, 4)
    data = [{"n": i, "home": rng.choice(["a", "b", "lib"]), "vis": rng.choice(["default", "default", "hidden", "protected"]), "sec": rng.choice([".data", ".rodata", ".data.rel.ro"]),
             "align": rng.choice([8, 16, 64, 4096])} for i in range(nd)]
    funcs = [{"n": i, "home": rng.choice(["a", "b", "lib"]), "vis": rng.choice(["default", "default", "hidden", "protected"])} for i in range(nf)]
    tls = [{"n": i, "home": rng.choice(["a", "b"]), "bss": rng.random() < 0.3} for i in range(nt)]
    for s in data + funcs:
        if s["home"] == "lib":
            s["vis"] = "default"
    for f in funcs:
        # some functions are STT_GNU_IFUNC: the symbol names a resolver, the value every reference must end up with is what it returns
        f["ifunc"] = rng.random() < 0.3
    # every program has a library function and at least one IFUNC in the library (what glibc's strlen, memcpy, ... are)
    if not any(f["home"] == "lib" for f in funcs):
        funcs[-1]["home"] = "lib"
    rng.choice([f for f in funcs if f["home"] == "lib"])["ifunc"] = True
    for f in funcs:
        if f["ifunc"] or f["home"] == "lib":
            f["vis"] = "default"
    return data, funcs, tls


def module_source(mod, data, funcs, tls, accessors):
    s = []
    for d in data:
        if d["home"] == mod:
            s += [f'.section {d["sec"]}.d{d["n"]},"a{"" if d["sec"] == ".rodata" else "w"}",@progbits', f".balign {d['align']}", f".globl d{d['n']}", f".type d{d['n']},@object"]
            if d["vis"] != "default":
                s.append(f".{d['vis']} d{d['n']}")
            s.append(f"d{d['n']}:")
            s += [f" .quad {marker(d['n'], i)}" for i in range(NEL)]
            s.append(f".size d{d['n']}, {8 * NEL}")
    for f in funcs:
        if f["home"] == mod:
            s += [f'.section .text.f{f["n"]},"ax",@progbits', f".globl f{f['n']}", f".type f{f['n']},@function"]
            if f["vis"] != "default":
                s.append(f".{f['vis']} f{f['n']}")
            if f.get("ifunc"):
                s[-1] = f".type f{f['n']},@gnu_indirect_function"
                s += [f"f{f['n']}:", f" lea f{f['n']}_impl(%rip), %rax", " ret", f".size f{f['n']}, .-f{f['n']}",
                      f".type f{f['n']}_impl,@function", f"f{f['n']}_impl:", f" mov ${100 + f['n']}, %eax", " ret", f".size f{f['n']}_impl, .-f{f['n']}_impl"]
            else:
                s += [f"f{f['n']}:", f" mov ${100 + f['n']}, %eax", " ret", f".size f{f['n']}, .-f{f['n']}"]
    for t in tls:
        if t["home"] == mod:
            if t["bss"]:
                s += [f'.section .tbss.t{t["n"]},"awT",@nobits', ".balign 8", f".globl t{t['n']}", f".type t{t['n']},@object", f"t{t['n']}:", f" .zero {8 * NEL}", f".size t{t['n']}, {8 * NEL}"]
            else:
                s += [f'.section .tdata.t{t["n"]},"awT",@progbits', ".balign 8", f".globl t{t['n']}", f".type t{t['n']},@object", f"t{t['n']}:"] + \
                     [f" .quad {marker(50 + t['n'], i)}" for i in range(NEL)] + [f".size t{t['n']}, {8 * NEL}"]
    for a in accessors:
        if a["mod"] != mod:
            continue
        nm, sym, off = a["name"], a["sym"], a["off"]
        s += ['.section .text.acc,"ax",@progbits', f".globl {nm}", f".type {nm},@function", f"{nm}:"]
        form = a["form"]
        if form == "lea":
            s.append(f" lea {sym}+{off}(%rip), %rax")
        elif form == "got":
            s += [f" mov {sym}@GOTPCREL(%rip), %rax", f" add ${off}, %rax"]
        elif form == "table":
            s.append(f" mov {nm}_slot(%rip), %rax")
        elif form == "rel32data":
            s += [f" lea {nm}_slot(%rip), %rcx", " movslq (%rcx), %rax", " add %rcx, %rax"]
        elif form == "movabs":
            s.append(f" movabs ${sym}+{off}, %rax")
        elif form == "imm32":
            s.append(f" mov ${sym}+{off}, %eax")
        elif form == "plt":
            s += [" push %rbx", f" call {sym}@PLT", " pop %rbx"]
        elif form == "tpoff":
            s += [" mov %fs:0, %rax", f" lea {sym}@tpoff+{off}(%rax), %rax"]
        elif form == "gottpoff":
            s += [f" mov {sym}@gottpoff(%rip), %rax", " add %fs:0, %rax", f" add ${off}, %rax"]
        elif form == "tlsgd":
            s += [" push %rbx", f" .byte 0x66", f" lea {sym}@tlsgd(%rip), %rdi", " .value 0x6666", " rex64", " call __tls_get_addr@PLT", f" add ${off}, %rax", " pop %rbx"]
        elif form == "tlsdesc":
            s += [" push %rbx", f" lea {sym}@tlsdesc(%rip), %rax", f" call *{sym}@tlscall(%rax)", " add %fs:0, %rax", f" add ${off}, %rax", " pop %rbx"]
        elif form == "tlsld":
            s += [" push %rbx", f" lea {sym}@tlsld(%rip), %rdi", " call __tls_get_addr@PLT", f" lea {sym}@dtpoff+{off}(%rax), %rax", " pop %rbx"]
        elif form == "weak":
            s += [f" .weak {sym}", f" mov {sym}@GOTPCREL(%rip), %rax"]
        s += [" ret", f".size {nm}, .-{nm}"]
        if form == "table":
            s += ['.section .data.rel.ro.slots,"aw",@progbits', ".balign 8", f"{nm}_slot: .quad {sym}+{off}"]
        elif form == "rel32data":
            s += ['.section .rodata.slots,"a",@progbits', ".balign 4", f"{nm}_slot: .long {sym}+{off} - ."]
    s.append('.section .note.GNU-stack,"",@progbits')
    return "\n".join(s) + "\n"


def plan(rng, data, funcs, tls, kind):
    """accessors for one build kind"""
    acc = []
    k = 0
    mods = ["a", "b"] if kind != "shared" else ["lib"]
    if kind == "shared":
        data = [dict(x, home="lib") for x in data]
        funcs = [dict(x, home="lib") for x in funcs]
        tls = [dict(x, home="lib") for x in tls]
    pic = kind not in ("static", "nopie-dyn")
    for d in data:
        forms = ["lea", "got", "table", "rel32data"] + ([] if pic else ["movabs", "imm32"])
        for mod in mods:
            local = d["home"] == mod
            for form in forms:
                if form in ("lea", "rel32data", "imm32") and not local and (d["home"] == "lib" or kind == "shared") and d["vis"] == "default":
                    # a pc-relative / 32-bit reference to a symbol the loader may bind elsewhere: only through copy relocations in executables
                    if kind in ("shared",) or pic:
                        continue
                if d["vis"] in ("hidden",) and not local and d["home"] == "lib":
                    continue
                if kind == "shared" and d["vis"] == "default" and form in ("lea", "rel32data"):
                    continue          # a shared object may not bind a preemptible symbol pc-relatively
                if rng.random() < 0.5:
                    continue
                off = 8 * rng.randrange(NEL)
                acc.append({"name": f"acc{k}", "mod": mod, "sym": f"d{d['n']}", "off": off, "form": form, "want": marker(d["n"], off // 8), "cls": "data"})
                k += 1
    for f in funcs:
        for mod in mods:
            local = f["home"] == mod
            for form in ["lea", "got", "table", "plt"] + ([] if pic else ["movabs"]):
                if form == "lea" and not local and (f["home"] == "lib" or kind == "shared") and pic:
                    continue
                if kind == "shared" and f["vis"] == "default" and form == "lea":
                    continue
                direct_import = kind == "nopie-dyn" and f["home"] == "lib" and form in ("lea", "movabs")     # always exercised: non-PIC code taking the address of an imported function
                if rng.random() < 0.5 and not direct_import:
                    continue
                # addresses of one function need not agree across forms for an IFUNC (a pc-relative reference gives the PLT entry, a GOT or data
                # reference the resolved address, in GNU ld as well) nor for a library function seen from a non-PIC executable (C38's subject)
                nocmp = bool(f.get("ifunc")) or (kind == "nopie-dyn" and f["home"] == "lib")
                acc.append({"name": f"acc{k}", "mod": mod, "sym": f"f{f['n']}", "off": 0, "form": form, "want": 100 + f["n"], "cls": "call" if form == "plt" else "func", "nocmp": nocmp})
                k += 1
    for t in tls:
        for mod in mods:
            forms = ["gottpoff", "tlsgd", "tlsdesc"] + (["tpoff"] if kind in ("static", "static-pie", "pie", "nopie-dyn") else []) + (["tlsld"] if t["home"] == mod else [])
            for form in forms:
                if rng.random() < 0.4:
                    continue
                off = 8 * rng.randrange(NEL)
                acc.append({"name": f"acc{k}", "mod": mod, "sym": f"t{t['n']}", "off": off, "form": form, "want": 0 if t["bss"] else marker(50 + t["n"], off // 8), "cls": "data"})
                k += 1
    acc.append({"name": f"acc{k}", "mod": mods[0], "sym": "never_defined_anywhere", "off": 0, "form": "weak", "want": 0, "cls": "null"})
    return acc


def driver(acc):
    s = ["#include <stdio.h>", "#include <stdint.h>"]
    s += [f"extern void *{a['name']}(void);" for a in acc]
    s.append("long anchor_data = 7; __thread long anchor_tls = 9;")
    s.append("struct e { void *(*fn)(void); long want; int cls; const char *sym; int off; const char *form; int nocmp; };")
    cls = {"data": 0, "func": 1, "call": 2, "null": 3}
    s.append("static struct e tab[] = {" + ", ".join(f'{{{a["name"]}, {a["want"]}, {cls[a["cls"]]}, "{a["sym"]}", {a["off"]}, "{a["form"]}", {int(bool(a.get("nocmp")))}}}' for a in acc) + "};")
    s.append("""int main(void) { int bad = 0; unsigned n = sizeof tab / sizeof *tab;
  printf("ANCHOR %lx %lx\\n", (unsigned long)(uintptr_t)&anchor_data, (unsigned long)(uintptr_t)&anchor_tls);
  for (unsigned i = 0; i < n; i++) { void *p = tab[i].fn(); long got;
    if (tab[i].cls == 2) got = (long)(uintptr_t)p & 0xffffffff;
    else if (tab[i].cls == 3) got = (long)(uintptr_t)p;
    else if (tab[i].cls == 1) got = ((int (*)(void))p)();
    else got = *(long *)p;
    printf("%s+%d %s %lx %ld\\n", tab[i].sym, tab[i].off, tab[i].form, tab[i].cls == 2 ? 0UL : (unsigned long)(uintptr_t)p - (unsigned long)tab[i].off, got);
    if (got != tab[i].want) { printf("WRONG %s+%d via %s: %ld, expected %ld\\n", tab[i].sym, tab[i].off, tab[i].form, got, tab[i].want); bad = 1; } }
  for (unsigned i = 0; i < n; i++) for (unsigned j = i + 1; j < n; j++)
    if (tab[i].cls < 2 && tab[j].cls < 2 && !tab[i].nocmp && !tab[j].nocmp) {
      char *a = (char *)tab[i].fn() - tab[i].off, *b = (char *)tab[j].fn() - tab[j].off;
      if (__builtin_strcmp(tab[i].sym, tab[j].sym) == 0 && a != b) { printf("DISAGREE %s: %s gives %p, %s gives %p\\n", tab[i].sym, tab[i].form, (void *)a, tab[j].form, (void *)b); bad = 1; } }
  puts(bad ? "FAILED" : "ALL-CORRECT"); return bad; }""")
    return "\n".join(s) + "\n"


def run(chk, replay=None):
    coq = coq_build(["C01"], ["C01/Props.v"])
    chk.add_coq(coq)
    okw, outw, wild = wild_build()
    if not okw:
        chk.tie_break("wild does not build", outw[-2000:])
        return chk.finish(TRUSTED)
    rng = chk.rng
    seeds = [rng.randrange(1 << 30) for _ in range(6 if chk.tier == "quick" else 60)]
    if replay:
        seeds = json.load(open(replay))["replay"]["seeds"]
    items, expect = [], []
    stats = {"programs": 0, "builds": 0, "runs": 0, "accessors": 0, "by_form": {}, "by_kind": {}, "ld_rejects": 0, "wild_rejects": 0, "harness_invalid": 0}
    d = tempfile.mkdtemp(prefix="c01")
    try:
        os.makedirs(f"{d}/bin")
        os.symlink(wild, f"{d}/bin/ld")
        for seed in seeds:
            r = random.Random(seed)
            data, funcs, tls = gen(r)
            stats["programs"] += 1
            for kind in ("static", "static-pie", "pie", "nopie-dyn", "shared"):
                acc = plan(r, data, funcs, tls, kind)
                if kind == "shared":
                    # everything lives in the library; the driver is a PIE using it
                    d2, f2, t2 = [dict(x, home="lib") for x in data], [dict(x, home="lib") for x in funcs], [dict(x, home="lib") for x in tls]
                    srcs = {"lib": module_source("lib", d2, f2, t2, acc)}
                else:
                    srcs = {m: module_source(m, data, funcs, tls, acc) for m in ("a", "b", "lib")}
                for m, text in srcs.items():
                    open(f"{d}/{m}.s", "w").write(text)
                open(f"{d}/drv.c", "w").write(driver(acc))
                rep = {"seeds": [seed], "kind": kind}
                asm = " && ".join(f"as --64 {m}.s -o {m}.o" for m in srcs)
                cc = {"static": "-fno-pie", "static-pie": "-fPIE", "pie": "-fPIE", "nopie-dyn": "-fno-pie", "shared": "-fPIE"}[kind]
                build = {}
                for linker in ("wild", "ld"):
                    B = f"-B{d}/bin" if linker == "wild" else ""
                    if kind == "shared":
                        link = f"gcc {B} -shared lib.o -o libacc.so && gcc {B} -pie drv.o -o prog.{linker} -L. -lacc -Wl,-rpath,{d}"
                    elif kind == "pie":
                        link = f"gcc {B} -shared lib.o -o libdefs.so && gcc {B} -pie drv.o a.o b.o -o prog.{linker} -L. -ldefs -Wl,-rpath,{d}"
                    elif kind == "nopie-dyn":
                        link = f"gcc {B} -shared lib.o -o libdefs.so && gcc {B} -no-pie drv.o a.o b.o -o prog.{linker} -L. -ldefs -Wl,-rpath,{d}"
                    else:
                        link = f"gcc {B} {'-static -no-pie' if kind == 'static' else '-static-pie'} drv.o a.o b.o lib.o -o prog.{linker}"
                    rc, out = sh(f"cd {d} && rm -f prog.{linker} && {asm} && gcc -O1 {cc} -c drv.c -o drv.o && {link}", timeout=300)
                    if rc:
                        build[linker] = ("reject", out)
                        continue
                    rc, out = sh(f"cd {d} && timeout 20 ./prog.{linker}", timeout=40)
                    build[linker] = (rc, out)
                stats["builds"] += 1
                lres, wres = build["ld"], build["wild"]
                if lres[0] == "reject":
                    stats["ld_rejects"] += 1
                    continue                                  # not an accepted program
                if lres[0] != 0 or "ALL-CORRECT" not in lres[1]:
                    stats["harness_invalid"] += 1
                    chk.tie_break("the generated program does not pass when linked by GNU ld: the harness is wrong for this case", dict(rep, output=lres[1][-500:]))
                    continue
                stats["by_kind"][kind] = stats["by_kind"].get(kind, 0) + 1
                stats["accessors"] += len(acc)
                for a in acc:
                    stats["by_form"][a["form"]] = stats["by_form"].get(a["form"], 0) + 1
                if wres[0] == "reject":
                    stats["wild_rejects"] += 1
                    chk.violation(f"a program GNU ld links and runs correctly is rejected ({kind}, seed {seed}): {wres[1].strip()[-300:]}", rep)
                    continue
                stats["runs"] += 1
                # the model's `actual` (where the definition is at run time) on the addresses of the real output
                if kind != "shared":
                    try:
                        e = elfread.Elf(f"{d}/prog.wild")
                        st = {x["name"]: x["value"] for x in e.symbols(".symtab") if x["name"]}
                        tlsph = next((p for p in e.phdrs if p["type"] == 7), None)
                        m = re.search(r"ANCHOR ([0-9a-f]+) ([0-9a-f]+)", wres[1])
                        if m and "anchor_data" in st and tlsph:
                            base = int(m.group(1), 16) - st["anchor_data"]
                            block = int(m.group(2), 16) - st["anchor_tls"]          # st_value of a TLS symbol is its offset in the TLS segment
                            for ln in wres[1].splitlines():
                                mm = re.match(r"(\w+)\+(\d+) (\w+) ([0-9a-f]+) (-?\d+)$", ln)
                                if not mm or mm.group(1) not in st or mm.group(3) in ("plt", "weak"):
                                    continue
                                sym, form, ptr = mm.group(1), mm.group(3), int(mm.group(4), 16)
                                homes = {f"d{x['n']}": x["home"] for x in data}
                                homes.update({f"f{x['n']}": x["home"] for x in funcs})
                                homes.update({f"t{x['n']}": x["home"] for x in tls})
                                if homes.get(sym) == "lib" and kind in ("pie", "nopie-dyn"):
                                    continue                          # lives in another module with its own base
                                if any(x.get("ifunc") and f"f{x['n']}" == sym for x in funcs):
                                    continue                          # an IFUNC's address is what its resolver returns or a PLT entry, not st_value
                                istls = sym.startswith("t")
                                k_ = "TpOff" if istls else "PcRel"
                                S_ = tlsph["vaddr"] + st[sym] if istls else st[sym]
                                items.append(f"actual {k_} (Lk {S_} {tlsph['vaddr']}) (Rn {base} {block})")
                                expect.append((ptr, dict(rep, symbol=sym, form=form)))
                    except Exception as ex:
                        chk.tie_break("cannot read back the addresses of a wild output", dict(rep, error=str(ex)))
                if wres[0] != 0 or "ALL-CORRECT" not in wres[1]:
                    lines = [l for l in wres[1].splitlines() if l.startswith(("WRONG", "DISAGREE"))] or [wres[1].strip()[-200:]]
                    chk.violation(f"a relocated reference has the wrong value at run time ({kind}, seed {seed}, exit {wres[0]}): " + "; ".join(lines[:3]), dict(rep, output=wres[1][-1500:]))
    finally:
        shutil.rmtree(d, ignore_errors=True)
    if items:
        imports = ("From Coq Require Import ZArith List Bool. Import ListNotations.\nFrom WV Require Import C01.Model.\nOpen Scope Z_scope.\n"
                   "Definition Lk (s ts : Z) := {| S := s; A := 0; P := 0; G := 0; L := 0; tls_start := ts; tls_end := ts; pic := true |}.\n"
                   "Definition Rn (b blk : Z) := {| base := b; tp := 0; modid := 1; block := fun _ => blk |}.\n")
        per = (len(items) + NCPU - 1) // NCPU
        bodies = ["Eval vm_compute in [\n" + ";\n".join(items[j * per:(j + 1) * per]) + "].\n" for j in range(NCPU) if items[j * per:(j + 1) * per]]
        flat, okm = [], True
        for rc_, o in coq_eval_sharded("c01", imports, bodies, timeout=600):
            if rc_ != 0:
                chk.tie_break("model evaluation failed (coqc)", o[-1500:])
                okm = False
                continue
            flat += parse_coq_value(o)
        if okm and len(flat) == len(expect):
            for mv, (ptr, rep) in zip(flat, expect):
                stats["model_points"] = stats.get("model_points", 0) + 1
                if mv != ptr:
                    stats["model_mismatch"] = stats.get("model_mismatch", 0) + 1
                    chk.tie_break(f"correspondence C01.actual: {rep['symbol']} via {rep['form']} is at {ptr:#x} in the running program, the model places it at {mv:#x}", rep)
        elif okm:
            chk.tie_break("model evaluation: wrong number of answers", {"items": len(expect), "answers": len(flat)})
    chk.cov.update({
        "evaluations": stats["runs"], "distinct_nontrivial": stats["accessors"],
        "rule": "3-6 data arrays, 2-4 functions, 1-3 TLS arrays per program, defined in object a, object b or a library, default/hidden/protected; about half of all (symbol, module, form) "
                "combinations get an accessor with a random element offset; forms: lea, @GOTPCREL, .quad table, .long sym-., movabs, mov $imm32, @PLT call, @tpoff, @gottpoff, @tlsgd, @tlsdesc, "
                "@tlsld+@dtpoff, weak undefined; 30% of the functions are IFUNCs; kinds: static non-PIC, static-PIE, PIE + shared library of definitions, non-PIC non-PIE executable + shared library "
                "of definitions (copy relocations, direct references to imported functions), shared library of everything + PIE driver",
        "stats": stats,
    })
    return chk.finish(TRUSTED)
