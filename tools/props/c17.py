"""C17 — the exit status reflects whether the output was written.
Theorems: coq/C17/Props.v (finite fault space, fully enumerated and lifted; decoding lemma for every wait status).
Tie (T3): the real wild binary (hooks on) with a fault injected at every phase boundary x kind x fork/no-fork;
syscall-boundary faults through strace (no hook)."""
from wvlib import *
import tempfile, hashlib

TRUSTED = [
    "Coq 8.16.1 kernel incl. vm_compute; axioms: none",
    "model C17/Model.v: wait_for_child_done / subprocess_result / report_error_and_exit; Linux wait-status encoding and Rust's panic exit code 101 are definitions of the abstract machine (validated by the tie)",
    "tie: wild built with --features libwild/verif_hooks, fault points WILD_VERIF_POINT=<phase>:<kind>; strace -f -e inject= for syscall-boundary faults",
    "not modelled: allocation failure inside arbitrary code (abort path is modelled as FAbort), faults inside rayon worker threads (propagate as panic), kernel OOM kill = FKill",
]
PHASES = ["loaded", "symbols", "resolved", "layout", "written", "verified", "linked", "informed"]
CPH = ["Loaded", "Symbols", "Resolved", "Layout", "Written", "Verified", "Linked", "Informed"]
FAULTS = ["error", "panic", "abort", "kill", "segv"]
CF = ["FError", "FPanic", "FAbort", "FKill", "FSegv"]

IMPORTS = """From Coq Require Import NArith List Bool. Import ListNotations.
From WV Require Import C17.Model.
Open Scope N_scope.
Definition row (r : bool * option (phase * fault)) :=
  let '(fork, flt) := r in let st := final_status true fork flt in
  [b2n_ (WIFEXITED st); (if WIFEXITED st then WEXITSTATUS st else WTERMSIG st); b2n_ (output_complete fork flt)].
"""
IMPORTS = IMPORTS.replace("Definition row", "Definition b2n_ (b : bool) : N := if b then 1 else 0.\nDefinition row")


def run(chk, replay=None):
    coq = coq_build(["C17"], ["C17/Props.v"])
    chk.add_coq(coq)
    okw, outw, wild = wild_build()
    if not okw:
        chk.tie_break("wild does not build", outw[-2000:])
        return chk.finish(TRUSTED)
    rc, out = coq_eval(f"c17_{os.getpid()}", "Eval vm_compute in map row all_runs.\n", IMPORTS)
    if rc != 0:
        chk.tie_break("model evaluation failed", out[-2000:])
        return chk.finish(TRUSTED)
    model_rows = parse_coq_value(out)
    runs = []
    for fork in (True, False):
        runs.append((fork, None, None))
        for p in PHASES:
            for f in FAULTS:
                runs.append((fork, p, f))
    assert len(runs) == len(model_rows)
    d = tempfile.mkdtemp(prefix="wv-c17-")
    nontrivial = 0
    samples = []
    try:
        open(f"{d}/a.s", "w").write(".globl _start\n.text\n_start: mov $60,%eax\n xor %edi,%edi\n syscall\n.data\nx: .quad _start\n")
        sh(f"as -o {d}/a.o {d}/a.s", check=True)
        rcr, o = sh(f"{wild} -o {d}/ref {d}/a.o", timeout=60)
        if rcr != 0:
            chk.tie_break("reference link failed", o[-1000:])
            return chk.finish(TRUSTED)
        ref = open(f"{d}/ref", "rb").read()

        def one(i, extra_env, cmd_prefix="", nofork=False):
            outp = f"{d}/out{i}"
            try:
                os.remove(outp)
            except OSError:
                pass
            env = dict(os.environ)
            env.update(extra_env)
            argv = cmd_prefix.split() + [wild] + (["--no-fork"] if nofork else []) + ["-o", outp, f"{d}/a.o"]
            p = subprocess.run(argv, env=env, stdout=subprocess.DEVNULL, stderr=subprocess.DEVNULL, timeout=120)
            time.sleep(0.02)
            complete = os.path.exists(outp) and open(outp, "rb").read() == ref
            return p.returncode, complete

        with ThreadPoolExecutor(max_workers=NCPU) as ex:
            futs = [ex.submit(one, i, ({"WILD_VERIF_POINT": f"{p}:{f}"} if p else {}), "", not fork) for i, (fork, p, f) in enumerate(runs)]
            observed = [fu.result() for fu in futs]
        for i, ((fork, p, f), m) in enumerate(zip(runs, model_rows)):
            rc_, complete = observed[i]
            exited = rc_ >= 0
            code = rc_ if exited else -rc_
            obs = [1 if exited else 0, code, 1 if complete else 0]
            if p:
                nontrivial += 1
            if len(samples) < 6 and i % 13 == 0:
                samples.append({"fork": fork, "point": p, "fault": f, "rc": rc_, "output_complete": complete})
            # the property itself
            if rc_ == 0 and not complete:
                chk.violation(f"wild exits 0 but the output is not completely written (fork={fork}, fault {f} at {p})",
                              {"fork": fork, "point": p, "fault": f, "cmd": f"WILD_VERIF_POINT={p}:{f} wild {'--no-fork ' if not fork else ''}-o out a.o"})
            # the tie
            if obs[:2] != m[:2] or (obs[2] != m[2] and not (p in ("written",) and False)):
                chk.tie_break("model/implementation disagree on exit status or output completeness",
                              {"fork": fork, "point": p, "fault": f, "observed[exited,code|sig,complete]": obs, "model": m})
        # syscall-boundary faults in the forked child, no hook
        inj = [("ftruncate", "signal=SIGKILL"), ("ftruncate", "error=ENOSPC"), ("mmap", "signal=SIGSEGV:when=40"),
               ("openat", "signal=SIGKILL:when=12"), ("munmap", "signal=SIGKILL:when=3"), ("fchmod", "signal=SIGKILL"),
               ("write", "signal=SIGKILL:when=1")]
        if chk.tier == "thorough":
            inj += [(s, f"signal=SIGKILL:when={n}") for s in ("openat", "mmap", "read", "close", "futex") for n in (1, 2, 5, 9, 20, 30)]
        st_runs = 0
        if shutil.which("strace"):
            for j, (sc, what) in enumerate(inj):
                rc_, complete = one(1000 + j, {}, cmd_prefix=f"strace -f -o /dev/null -e trace={sc} -e inject={sc}:{what} ")
                st_runs += 1
                if rc_ == 0 and not complete:
                    chk.violation(f"wild exits 0 but the output is not completely written (strace inject={sc}:{what})",
                                  {"cmd": f"strace -f -e inject={sc}:{what} wild -o out a.o"})
        # resource-limit faults: RLIMIT_FSIZE (SIGXFSZ ignored) makes write/ftruncate fail or come up short
        import resource, signal
        open(f"{d}/big.s", "w").write(".globl _start\n.text\n_start: lea blob(%rip),%rsi\n mov $60,%eax\n xor %edi,%edi\n syscall\n.data\nblob: .fill 65536,1,0x5a\n")
        sh(f"as -o {d}/big.o {d}/big.s", check=True)
        rcb, _ = sh(f"{wild} -o {d}/bigref {d}/big.o", timeout=60)
        bigref = open(f"{d}/bigref", "rb").read() if rcb == 0 else None
        lim_runs = 0
        if bigref:
            def limited():
                signal.signal(signal.SIGXFSZ, signal.SIG_IGN)
                resource.setrlimit(resource.RLIMIT_FSIZE, (16384, 16384))
            for flags in ([], ["--no-fork"], ["--no-mmap-output-file"], ["--no-fork", "--no-mmap-output-file"], ["--update-in-place"]):
                outp = f"{d}/lim{lim_runs}"
                pr = subprocess.run([wild] + flags + ["-o", outp, f"{d}/big.o"], preexec_fn=limited, stdout=subprocess.DEVNULL, stderr=subprocess.DEVNULL, timeout=120)
                lim_runs += 1
                complete = os.path.exists(outp) and open(outp, "rb").read() == bigref
                if pr.returncode == 0 and not complete:
                    chk.violation(f"wild exits 0 but the output is not completely written (RLIMIT_FSIZE=16384, SIGXFSZ ignored, flags {flags})",
                                  {"cmd": f"(trap '' XFSZ; ulimit -f 16; wild {' '.join(flags)} -o out big.o)  # big.o has a 64 KiB .data", "size": os.path.getsize(outp) if os.path.exists(outp) else None})
        st_runs += lim_runs
    finally:
        shutil.rmtree(d, ignore_errors=True)
    chk.cov.update({
        "evaluations": len(runs) + st_runs, "distinct_nontrivial": nontrivial, "exhaustive": True,
        "traces_validated_against_impl": len(runs),
        "rule": "the model's whole fault space: {fork, no-fork} x (no fault + 8 phase boundaries x {error, panic, abort, SIGKILL, SIGSEGV}) replayed on the real binary (exit status, byte-exact "
                "output completeness vs a reference link), plus syscall-boundary injections via strace; non-trivial = a fault was injected",
        "samples": samples, "strace_injections": st_runs,
    })
    chk.assumptions = TRUSTED
    return chk.finish(TRUSTED)
