"""C32 — symbol versions follow the version script.
Theorems: coq/C32/Props.v (wild's find_match = GNU ld's bfd_find_version_for_sym on scripts whose wildcard matches for the
symbol are of one kind and where no local-only wildcard node follows the last global wildcard node; refutations outside).
Tie T2: generated version scripts (1-4 nodes, exact names, globs without `*`, globs with `*`, bare `*`, in global and
local sections, dependency chains) x symbol sets are linked into shared objects by wild and by GNU ld; .dynsym/.gnu.version/
.gnu.version_d are read back.  wild vs model, ld vs spec, wild vs ld; plus the structural consistency of wild's version
definition tables (indices, vd_cnt/vd_aux/vda_next chains, parents, hashes)."""
from wvlib import *
import tempfile, shutil, struct, fnmatch
import elfread

TRUSTED = [
    "Coq 8.16.1 kernel incl. vm_compute; axioms: none",
    "a node is abstracted to the match bits of its pattern kinds for one symbol name; whether a single pattern matches a name is fnmatch (Python's fnmatchcase here; POSIX fnmatch is C15's subject)",
    "spec = GNU ld's bfd_find_version_for_sym written as a scan (C32/Model.v gnu_match), validated on every run against GNU ld 2.40 on the generated links",
    "the text of every generated script is parsed by the parser model (C22/VScript.v, theorem C22_version_script_round_trip for its white-space-free form) and by wild's parser (hook): both must return the generated structure",
    "extern \"C++\" patterns, `sym@VER` in the objects, version requirements of shared-library inputs and anonymous scripts are outside the generated inputs; the verdef consistency check is a structural predicate on wild's output, not a theorem",
]

IMPORTS = """From Coq Require Import List Bool Arith NArith. Import ListNotations.
From WV Require Import C32.Model.
Definition N_ (a b c d e f g h : bool) : node := {| gx := a; lx := b; gn := c; gs := d; ga := e; ln := f; ls := g; la := h |}.
Definition enc (v : verdict) : list N := match v with Global i => [0%N; N.of_nat i] | Local i => [1%N; N.of_nat i] | NoMatch => [2%N] end.
Definition both (ns : list node) := (enc (wild_match ns), enc (gnu_match ns), canonical ns).
"""

SYMS = ["foo", "foo1", "foo_bar", "fob", "bar", "bar2", "baz", "qux_priv", "q", "zed"]
PATS = {"x": ["foo", "foo1", "bar", "baz", "q", "zed", "fob"], "n": ["fo?", "ba[rz]", "?", "foo?", "ba??"], "s": ["foo*", "*bar", "ba*", "f*o*", "*_priv", "q*"], "a": ["*"]}


def kind(p):
    if p == "*":
        return "a"
    if "*" in p:
        return "s"
    if "?" in p or "[" in p:
        return "n"
    return "x"


def gen_script(rng, odd):
    k = rng.randrange(1, 5)
    nodes = []
    for i in range(k):
        g, l = [], []
        kinds = ["x", "x", "s"] if not odd else ["x", "n", "s", "a"]
        for _ in range(rng.randrange(1, 4)):
            g.append(rng.choice(PATS[rng.choice(kinds)]))
        lk = ["a"] if not odd else ["x", "n", "s", "a"]
        if rng.random() < (0.35 if not odd else 0.6):
            for _ in range(rng.randrange(1, 3)):
                l.append(rng.choice(PATS[rng.choice(lk)]))
        nodes.append((list(dict.fromkeys(g)), list(dict.fromkeys(l))))
    # GNU ld rejects a pattern that occurs both in a `global:` and in a `local:` list (anywhere in the script);
    # repeating it among the global lists of several nodes, or among the local lists, is fine
    in_g, in_l = set(), set()
    out = []
    for g, l in nodes:
        g2 = [p for p in g if p not in in_l]
        in_g.update(g2)
        l2 = [p for p in l if p not in in_g]
        in_l.update(l2)
        if not g2 and not l2:
            g2 = [f"unique{len(out)}"]
        out.append((g2, l2))
    return out


def script_text(nodes):
    out = []
    for i, (g, l) in enumerate(nodes):
        body = ""
        if g:
            body += " global: " + " ".join(p + ";" for p in g)
        if l:
            body += " local: " + " ".join(p + ";" for p in l)
        out.append(f"V{i + 1} {{{body} }}" + (f" V{i}" if i > 0 else "") + ";")
    return "\n".join(out) + "\n"


def bits(nodes, name):
    res = []
    for g, l in nodes:
        def m(ps, k):
            return any(kind(p) == k and (p == name if k == "x" else fnmatch.fnmatchcase(name, p)) for p in ps)
        res.append((m(g, "x"), m(l, "x"), m(g, "n"), m(g, "s"), m(g, "a"), m(l, "n"), m(l, "s"), m(l, "a")))
    return res


def read_versions(path):
    """{symbol: 'V<i>' | 'GLOBAL' (unversioned)}; symbols absent from .dynsym are local.  Also returns verdef well-formedness problems."""
    e = elfread.Elf(path)
    problems = []
    syms = e.symbols(".dynsym")
    versym = e.words(".gnu.version", "<H")
    vd = e.section(".gnu.version_d")
    names = {}
    if vd is not None:
        dta = e.data(vd)
        strsec = e.shdrs[vd["link"]]
        off = 0
        seen = 0
        while True:
            if off + 20 > len(dta):
                problems.append("verdef entry runs past the section")
                break
            ver, flags, ndx, cnt, hsh, aux, nxt = struct.unpack_from("<HHHHIII", dta, off)
            seen += 1
            if ver != 1:
                problems.append(f"vd_version {ver}")
            if cnt < 1:
                problems.append(f"vd_cnt {cnt} for index {ndx}")
            a = off + aux
            auxnames = []
            for j in range(cnt):
                if a + 8 > len(dta):
                    problems.append("verdaux runs past the section")
                    break
                nm, an = struct.unpack_from("<II", dta, a)
                auxnames.append(e.cstr(strsec["offset"] + nm))
                if an == 0 and j != cnt - 1:
                    problems.append("vda_next chain shorter than vd_cnt")
                    break
                a += an
            if auxnames:
                if ndx in names:
                    problems.append(f"version index {ndx} defined twice")
                names[ndx] = auxnames
                if elfread.sysv_hash(auxnames[0]) != hsh:
                    problems.append(f"vd_hash of {auxnames[0]} is wrong")
            if nxt == 0:
                break
            off += nxt
        if seen != vd["info"]:
            problems.append(f"sh_info {vd['info']} != {seen} definitions")
    out = {}
    for i, s in enumerate(syms):
        if i == 0 or s["shndx"] == 0 or not s["name"]:
            continue
        v = versym[i] & 0x7fff if i < len(versym) else 1
        if v in (0, 1):
            out[s["name"]] = "GLOBAL" if v == 1 else "LOCALIDX"
        elif v in names:
            out[s["name"]] = names[v][0]
        else:
            problems.append(f"versym of {s['name']} refers to undefined index {v}")
            out[s["name"]] = f"?{v}"
    # parents: V(i) must name V(i-1) as its second verdaux
    for ndx, an in names.items():
        if an[0].startswith("V") and an[0][1:].isdigit() and int(an[0][1:]) > 1:
            if len(an) < 2 or an[1] != f"V{int(an[0][1:]) - 1}":
                problems.append(f"{an[0]} does not list its parent: {an}")
    return out, problems, names


def run(chk, replay=None):
    coq = coq_build(["C32"], ["C32/Props.v", "C32/PropsText.v"])
    chk.add_coq(coq)
    okw, outw, wild = wild_build()
    if not okw:
        chk.tie_break("wild does not build", outw[-2000:])
        return chk.finish(TRUSTED)
    rng = chk.rng
    scripts = []
    if replay:
        scripts = [[(g, l) for g, l in s] for s in json.load(open(replay))["replay"]["scripts"]]
    else:
        cp = os.path.join(ROOT, "corpus", "C32.json")
        if os.path.exists(cp):
            scripts += [[(g, l) for g, l in s] for s in json.load(open(cp))]
        for k in range(60 if chk.tier == "quick" else 600):
            scripts.append(gen_script(rng, odd=(k % 3 == 2)))
    # ---- the text of every generated script through the parser model (C22/VScript.v) and the real parser (hook):
    #      both must give back the structure the script was generated from
    okh, outh, wvh = harness_build()
    if not okh:
        chk.tie_break("the harness does not build", outh[-1500:])
    else:
        from props import c22 as c22mod
        texts = [script_text(nodes).encode() for nodes in scripts]
        impl = run_impl(wvh, "c22", ["vs " + t.hex() for t in texts])
        vitems = ["vs [" + "; ".join(str(b) for b in t) + "]" for t in texts]
        per = (len(vitems) + NCPU - 1) // NCPU or 1
        vb = ["Eval vm_compute in [\n" + ";\n".join(vitems[j * per:(j + 1) * per]) + "].\n" for j in range(NCPU) if vitems[j * per:(j + 1) * per]]
        flat, okp = [], True
        for rc_, o in coq_eval_sharded("c32vs", c22mod.VS_IMPORTS, vb, timeout=900):
            if rc_ != 0:
                chk.tie_break("parser model evaluation failed (coqc)", o[-1500:])
                okp = False
                continue
            flat += parse_coq_value(o)
        parse_stats = {"texts": len(texts), "parsed_as_generated": 0}
        if okp and len(flat) == len(texts):
            for nodes, t, mv, im in zip(scripts, texts, flat, impl):
                # what the generator meant: version i+1 named V<i+1>, parent V<i>, patterns by kind and section
                want = [([], 0, ([], []))]
                for i, (g, l) in enumerate(nodes):
                    def pm(ps):
                        return [(0, [({"x": 0, "n": 3, "s": 2, "a": 4}[kind(p_)], [] if p_ == "*" else list(p_.encode()))]) for p_ in ps]
                    want.append((list(f"V{i + 1}".encode()), 0 if i == 0 else i + 1, (pm(g), pm(l))))
                want_r = c22mod.render_vs((1, want[1:]))
                got_m = c22mod.render_vs(mv)
                got_i = "E" if im.startswith("E ") else im
                if got_m != want_r:
                    chk.tie_break("C22.VScript.parse_version_script does not give back the structure a generated script was printed from", {"script": t.decode(), "model": got_m[:400], "generated": want_r[:400]})
                elif got_i != want_r:
                    chk.tie_break("wild's version-script parser does not give back the structure a generated script was printed from", {"script": t.decode(), "wild": got_i[:400], "generated": want_r[:400]})
                else:
                    parse_stats["parsed_as_generated"] += 1
        chk.cov["parser"] = parse_stats
    known = {k["id"] for k in chk.known}
    stats = {"scripts": len(scripts), "symbols": 0, "canonical": 0, "wild_eq_ld": 0, "model_mismatch": 0, "spec_mismatch": 0, "exported_versioned": 0, "hidden": 0, "verdef_problems": 0}
    d = tempfile.mkdtemp(prefix="c32")
    obs = []
    stats_via_command = [0]
    try:
        src = [".text"] + [f".globl {s}\n.type {s},@function\n{s}: ret" for s in SYMS]
        open(d + "/o.s", "w").write("\n".join(src) + "\n")
        rc, out = sh(f"cd {d} && as --64 o.s -o o.o", timeout=60)
        if rc != 0:
            chk.tie_break("as failed", out[-300:])
            return chk.finish(TRUSTED)
        for si, nodes in enumerate(scripts):
            open(d + "/s.map", "w").write(script_text(nodes))
            # every third script reaches the linker through the VERSION command of a linker script given as an input file
            how = "--version-script=s.map"
            if si % 3 == 1:
                open(d + "/v.ld", "w").write("VERSION {\n" + script_text(nodes) + "}\n")
                how = "v.ld"
                stats_via_command[0] += 1
            rcw, ow = sh(f"cd {d} && rm -f w.so && timeout 60 {wild} -shared o.o {how} -o w.so", timeout=90)
            rcl, ol = sh(f"cd {d} && rm -f l.so && timeout 60 ld -shared o.o {how} -o l.so", timeout=90)
            w = read_versions(d + "/w.so") if rcw == 0 else None
            l = read_versions(d + "/l.so") if rcl == 0 else None
            obs.append((w, l, ow[-200:], ol[-200:]))
    finally:
        shutil.rmtree(d, ignore_errors=True)
    items = []
    for nodes in scripts:
        for s in SYMS:
            b = lambda x: "true" if x else "false"
            items.append("both [" + "; ".join("N_ " + " ".join(b(x) for x in nb) for nb in bits(nodes, s)) + "]")
    mres = []
    per = (len(items) + NCPU - 1) // NCPU
    bodies = ["Eval vm_compute in [\n" + ";\n".join(items[k * per:(k + 1) * per]) + "].\n" for k in range(NCPU) if items[k * per:(k + 1) * per]]
    okm = True
    for rc, out in coq_eval_sharded("c32", IMPORTS, bodies, timeout=600):
        if rc != 0:
            chk.tie_break("model evaluation failed (coqc)", out[-1500:])
            okm = False
            continue
        mres += parse_coq_value(out)
    if okm and len(mres) != len(items):
        chk.tie_break("model evaluation: wrong number of answers", {"items": len(items), "answers": len(mres)})
        mres = []

    # ---- the same verdicts computed from the TEXT inside Coq (parser model + glob/fnmatch models + wild_match/gnu_match):
    #      they must agree with the verdicts computed from the match bits this driver derived with Python's fnmatch
    TXT_IMPORTS = IMPORTS + ("From WV Require Import C15.Model C22.VScript C32.FromText.\n"
                             "Definition enco (o : option verdict) : list N := match o with Some v => enc v | None => [9%N] end.\n"
                             "(* wild_version_of / gnu_version_of for several names, parsing the text once *)\n"
                             "Definition txt (text : list N) (names : list (list N)) :=\n"
                             "  match C22.VScript.parse_version_script any_glob text with\n"
                             "  | C22.VScript.Ok (C22.VScript.Versions vs) =>\n"
                             "      map (fun n => (enc (wild_match (map (fun v => node_of C15.Model.globmatch (C22.VScript.vbody v) n) vs)),\n"
                             "                     enc (gnu_match (map (fun v => node_of C15.Model.fnmatch (C22.VScript.vbody v) n) vs)))) names\n"
                             "  | _ => map (fun _ => ([9%N], [9%N])) names\n"
                             "  end.\n"
                             "Lemma txt_is_version_of text names : txt text names = map (fun n => (enco (wild_version_of text n), enco (gnu_version_of text n))) names.\n"
                             "Proof. unfold txt, wild_version_of, gnu_version_of, nodes_of_text. destruct (C22.VScript.parse_version_script any_glob text) as [[b|vs]| |]; reflexivity. Qed.\n")
    titems = ["txt [" + "; ".join(str(b) for b in script_text(nodes).encode()) + "] [" + "; ".join("[" + "; ".join(str(b) for b in s_.encode()) + "]" for s_ in SYMS) + "]" for nodes in scripts]
    per = (len(titems) + NCPU - 1) // NCPU or 1
    tbodies = ["Eval vm_compute in [\n" + ";\n".join(titems[k * per:(k + 1) * per]) + "].\n" for k in range(NCPU) if titems[k * per:(k + 1) * per]]
    tres, okt = [], True
    for rc, out in coq_eval_sharded("c32txt", TXT_IMPORTS, tbodies, timeout=900):
        if rc != 0:
            chk.tie_break("text-level model evaluation failed (coqc)", out[-1500:])
            okt = False
            continue
        tres += parse_coq_value(out)
    stats["text_level"] = {"scripts": 0, "verdicts": 0, "mismatch": 0}
    if okt and len(tres) == len(scripts) and len(mres) == len(items):
        for si, (nodes, per_sym) in enumerate(zip(scripts, tres)):
            stats["text_level"]["scripts"] += 1
            for k_, (s_, (tw, tg)) in enumerate(zip(SYMS, per_sym)):
                mw_, mg_, _c = mres[si * len(SYMS) + k_]
                stats["text_level"]["verdicts"] += 1
                if list(tw) != list(mw_) or list(tg) != list(mg_):
                    stats["text_level"]["mismatch"] += 1
                    chk.tie_break("C32.FromText: the verdict computed from the script text inside Coq differs from the one computed from the driver's match bits",
                                  {"script": script_text(nodes), "symbol": s_, "from_text": [list(tw), list(tg)], "from_bits": [list(mw_), list(mg_)]})

    def show(v):
        return {0: f"V{v[1] + 1}" if len(v) > 1 else "?", 1: "LOCAL", 2: "GLOBAL"}[v[0]]
    samples = []
    it = iter(mres)
    for nodes, (w, l, ow, ol) in zip(scripts, obs):
        rep0 = {"scripts": [[list(x) for x in nodes]], "script": script_text(nodes)}
        if w is None or l is None:
            for _ in SYMS:
                next(it, None)
            if l is None:
                stats["ld_rejects"] = stats.get("ld_rejects", 0) + 1       # not a script in GNU ld's language
            elif w is None:
                chk.violation(f"version script accepted by {'GNU ld' if w is None else 'wild'} only: {script_text(nodes)!r} ({(ow if w is None else ol)[-150:]})", rep0)
            continue
        if w[1]:
            stats["verdef_problems"] += 1
            chk.violation(f"wild's version definition tables are inconsistent: {w[1][:3]} for script {script_text(nodes)!r}", rep0)
        if l[1]:
            chk.tie_break("the verdef consistency predicate rejects GNU ld's own output", {"problems": l[1], **rep0})
        for s in SYMS:
            m = next(it, None)
            if m is None:
                break
            mw, mg, canon = m
            stats["symbols"] += 1
            stats["canonical"] += int(canon)
            got_w = w[0].get(s, "LOCAL")
            got_l = l[0].get(s, "LOCAL")
            rep = dict(rep0, symbol=s, wild=got_w, ld=got_l, model_wild=show(mw), model_gnu=show(mg), canonical=canon)
            if got_w != show(mw):
                stats["model_mismatch"] += 1
                chk.tie_break("correspondence C32.wild_match: wild's version for a symbol differs from the model", rep)
            if got_l != show(mg):
                stats["spec_mismatch"] += 1
                chk.tie_break("spec validation C32.gnu_match: GNU ld's version for a symbol differs from the specification", rep)
            stats["exported_versioned"] += int(got_l.startswith("V"))
            stats["hidden"] += int(got_l == "LOCAL")
            if got_w == got_l:
                stats["wild_eq_ld"] += 1
            else:
                what = f"symbol `{s}` gets {got_w} from wild, {got_l} from GNU ld under the script {script_text(nodes)!r}"
                if canon:
                    chk.violation(what, rep)       # inside the proved domain
                elif "C32-wildcard-precedence" in known:
                    chk.known_hit("C32-wildcard-precedence", rep)
                else:
                    chk.violation(what, rep)
        if len(samples) < 3:
            samples.append({"script": script_text(nodes), "wild": w[0], "ld": l[0]})
    stats["via_VERSION_command"] = stats_via_command[0]
    chk.cov.update({
        "evaluations": stats["symbols"], "distinct_nontrivial": stats["exported_versioned"],
        "rule": "1-4 chained nodes; global section 1-3 patterns, local section (35% / 60%) 1-2 patterns; two thirds of the scripts use exact names and `*`-globs in global and the bare `*` in local "
                "(the idiom), every third one mixes exact / `?`,`[]` globs / `*` globs / bare `*` in both sections; 10 symbols; non-trivial = symbols GNU ld exports with a version",
        "stats": stats, "samples": samples,
    })
    return chk.finish(TRUSTED)
