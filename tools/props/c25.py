"""C25 — the dependency file lists exactly the files the link read.
Theorems: coq/C25/Props.v (prerequisites = the non-temporary loaded files, once each; GNU Make's reading of the rule
line returns the target and every prerequisite for all names without backslash/newline/colon; refuted without escaping).
Tie T2 against the real binary: generated links mixing objects (some given twice), archives (used and unused),
thin archives and members, -T scripts, implicit INPUT() scripts, shared libraries, -L/-l search, --start-lib groups,
--whole-archive, version scripts and export lists, with file and directory names that contain spaces, `$`, `#`, quotes
and parentheses.  Checked on the real dependency file: the rule line is read by C25.Model.read_rule (evaluated in Coq)
and by a Python transcription; target = the output path; prerequisites = exactly the files wild opened (strace) = the
files of the construction, no duplicates; and GNU make itself, given the file, considers the output out of date after
any one of the inputs is touched and up to date otherwise."""
from wvlib import *
import tempfile, shutil

TRUSTED = [
    "Coq 8.16.1 kernel incl. vm_compute; axioms: none",
    "C25.Model.read_rule is a model of GNU Make's rule-line reading restricted to backslash-space, backslash-hash and $$; GNU make 4.3 itself is run on every generated file as a second oracle",
    "`the files the link read` is taken from strace (regular files opened read-only below the case directory) and cross-checked with the construction; linker plugins / temporary files are not generated",
]

# Makefile syntax cannot express names with = % * ? [ ~ ; ( ) | tab : backslash newline (C25.Model.safe excludes them); everything else is fair game
ODD = ["plain", "with space", "two  spaces", "dollar$sign", "$lead", "hash#tag", "#lead", "quote'q", 'dq"x', "amp&and", "uni-é", "excl!", "comma,x", "plus+x", "at@x", "brace{x}", "lt<gt>", "trail$"]


def py_read_rule(line):
    mode, cur, words, target = 0, [], [], None
    def push():
        nonlocal cur, words
        if cur:
            words.append(bytes(cur))
            cur = []
    for c in line:
        if mode == 1:
            cur += [c] if c in (32, 35) else [92, c]
            mode = 0
        elif mode == 2:
            cur.append(c)
            mode = 0
        elif c == 92:
            mode = 1
        elif c == 36:
            mode = 2
        elif c in (32, 10):
            push()
        elif c == 58 and target is None:
            target, cur, words = bytes(cur), [], []
        else:
            cur.append(c)
    push()
    return (target, words) if target is not None else None


def gen_case(rng, d, odd):
    def nm(base, ext):
        return (f"{rng.choice(ODD)} {base}" if odd and rng.random() < 0.7 else base) + ext
    sub = rng.choice(ODD) + " dir" if odd and rng.random() < 0.5 else "sub"
    os.makedirs(f"{d}/{sub}", exist_ok=True)
    files = {}       # relative path -> role
    calls = []
    def asm(rel, body):
        open(f"{d}/{rel}.s.tmp", "w").write(body)
        subprocess.run(["as", "--64", f"{d}/{rel}.s.tmp", "-o", f"{d}/{rel}"], check=True)
        os.remove(f"{d}/{rel}.s.tmp")
    argv = []
    expected = []
    k = 0
    def fn():
        nonlocal k
        k += 1
        return f"fn{k}"
    # plain objects
    for _ in range(rng.randrange(1, 4)):
        f = fn(); rel = nm(f, ".o"); asm(rel, f".globl {f}\n{f}: ret\n"); argv.append(rel); expected.append(rel); calls.append(f)
        if rng.random() < 0.3:
            argv.append(rel)
    if rng.random() < 0.7:      # archive with a used member
        f = fn(); m = f"{sub}/{f}.o"; asm(m, f".globl {f}\n{f}: ret\n"); a = nm(f"lib{f}", ".a")
        subprocess.run(["ar", "rc", f"{d}/{a}", f"{d}/{m}"], check=True); os.remove(f"{d}/{m}")
        argv.append(a); expected.append(a); calls.append(f)
    if rng.random() < 0.5:      # archive nothing is taken from
        f = fn(); m = f"{sub}/{f}.o"; asm(m, f".globl {f}\n{f}: ret\n"); a = nm(f"unused{f}", ".a")
        subprocess.run(["ar", "rc", f"{d}/{a}", f"{d}/{m}"], check=True); os.remove(f"{d}/{m}")
        argv += rng.choice([[a], ["--whole-archive", a, "--no-whole-archive"]]); expected.append(a)
    if rng.random() < 0.6:      # thin archive
        f = fn(); m = nm(f"thin{f}", ".o"); asm(m, f".globl {f}\n{f}: ret\n"); a = nm(f"libthin{f}", ".a")
        members = [m]
        if rng.random() < 0.5 and expected:
            members.append(rng.choice([x for x in expected if x.endswith(".o")] or [m]))     # an object that is also given directly
        subprocess.run(["ar", "rcT", a] + list(dict.fromkeys(members)), check=True, cwd=d)
        argv.append(a); expected += [a, m]; calls.append(f)
        if rng.random() < 0.4:                                                                 # a second thin archive sharing the member
            a2 = nm(f"libthin2{f}", ".a")
            subprocess.run(["ar", "rcT", a2, m], check=True, cwd=d)
            argv.append(a2); expected.append(a2)
    if rng.random() < 0.5:      # implicit script naming an object
        f = fn(); m = f"{sub}/{nm('inp' + f, '.o')}"; asm(m, f".globl {f}\n{f}: ret\n"); sc = nm(f"imp{f}", ".ld")
        open(f"{d}/{sc}", "w").write(f'INPUT("{m}")\n' if '"' not in m else f"INPUT({m})\n")
        if '"' in m and any(ch in m for ch in " ()$#;&*\t"):
            os.remove(f"{d}/{sc}"); os.remove(f"{d}/{m}")
        else:
            argv.append(sc); expected += [sc, m]; calls.append(f)
    if rng.random() < 0.5:      # -l search
        f = fn(); m = f"{sub}/{f}.o"; asm(m, f".globl {f}\n{f}: ret\n"); a = f"{sub}/lib{f}.a"
        subprocess.run(["ar", "rc", f"{d}/{a}", f"{d}/{m}"], check=True); os.remove(f"{d}/{m}")
        argv += ["-L", sub, f"-l{f}"]; expected.append(a); calls.append(f)
    if rng.random() < 0.4:      # --start-lib
        f = fn(); m = nm(f"lazy{f}", ".o"); asm(m, f".globl {f}\n{f}: ret\n")
        argv += ["--start-lib", m, "--end-lib"]; expected.append(m)
        if rng.random() < 0.5:
            calls.append(f)
    shared = rng.random() < 0.5
    if rng.random() < 0.5:      # a shared library
        f = fn(); m = f"{sub}/so{f}.o"; asm(m, f".globl {f}\n.type {f},@function\n{f}: ret\n"); so = nm(f"libso{f}", ".so")
        subprocess.run(["ld", "-shared", f"{d}/{m}", "-o", f"{d}/{so}"], check=True); os.remove(f"{d}/{m}")
        argv.append(so); expected.append(so)
    if rng.random() < 0.5:
        sc = nm("layout", ".ld"); open(f"{d}/{sc}", "w").write("SECTIONS { .text : { *(.text .text.*) } }\n")
        argv += ["-T", sc]; expected.append(sc)
    if rng.random() < 0.5:
        vs = f"{sub}/{nm('versions', '.map')}"; open(f"{d}/{vs}", "w").write("{ global: *; };\n")
        argv.append(f"--version-script={vs}"); expected.append(vs)
    if rng.random() < 0.4:
        el = nm("exports", ".list"); open(f"{d}/{el}", "w").write("{ fn1; };\n")
        argv.append(rng.choice([f"--dynamic-list={el}", f"--export-dynamic-symbol-list={el}"])); expected.append(el)
    main = nm("main", ".o")
    asm(main, ".globl _start\n_start:\n" + "".join(f" call {c}\n" for c in calls) + " ret\n")
    argv.insert(0, main); expected.append(main)
    if shared:
        argv.append("-shared")
    out = nm("output", ".bin")
    dep = f"{sub}/{nm('deps', '.d')}"
    return argv, expected, out, dep


def run(chk, replay=None):
    coq = coq_build(["C25"], ["C25/Props.v"])
    chk.add_coq(coq)
    okw, outw, wild = wild_build()
    if not okw:
        chk.tie_break("wild does not build", outw[-2000:])
        return chk.finish(TRUSTED)
    rng = chk.rng
    seeds = [rng.randrange(1 << 30) for _ in range(40 if chk.tier == "quick" else 400)]
    if replay:
        seeds = json.load(open(replay))["replay"]["seeds"]
    stats = {"links": 0, "accepted": 0, "rejected": 0, "odd_names": 0, "prerequisites": 0, "touch_probes": 0, "with_version_script": 0, "with_export_list": 0, "with_thin": 0, "model_mismatch": 0, "reject_reasons": {}}
    items, expect = [], []
    base = tempfile.mkdtemp(prefix="c25")
    try:
        for seed in seeds:
            r = random.Random(seed)
            odd = r.random() < 0.6
            d = f"{base}/c{seed}"
            os.makedirs(d)
            try:
                argv, expected, out, dep = gen_case(r, d, odd)
            except subprocess.CalledProcessError as ex:
                chk.tie_break("could not build the inputs of a generated case", {"seeds": [seed], "msg": str(ex)[:300]})
                continue
            rep = {"seeds": [seed], "argv": argv, "output": out, "dep_file": dep}
            log = f"{d}/strace.log"
            p = subprocess.run(["strace", "-f", "-o", log, "-e", "trace=openat,open", "-e", "status=successful", wild] + argv + ["-o", out, f"--dependency-file={dep}", "--no-fork"],
                               cwd=d, stdout=subprocess.PIPE, stderr=subprocess.STDOUT, text=True, timeout=120)
            stats["links"] += 1
            if p.returncode != 0:
                stats["rejected"] += 1
                key = re.sub(r"`[^`]*`", "`..`", p.stdout.strip().splitlines()[0][:80]) if p.stdout.strip() else "?"
                stats["reject_reasons"][key] = stats["reject_reasons"].get(key, 0) + 1
                continue
            stats["accepted"] += 1
            stats["odd_names"] += int(odd)
            stats["with_version_script"] += int(any(a.startswith("--version-script") for a in argv))
            stats["with_export_list"] += int(any(a.startswith(("--dynamic-list", "--export-dynamic")) for a in argv))
            stats["with_thin"] += int(any("libthin" in a for a in argv))
            if not os.path.exists(f"{d}/{dep}"):
                chk.violation(f"--dependency-file given and no dependency file written (seed {seed})", rep)
                continue
            # files wild opened read-only below the case directory
            opened = set()
            for ln in open(log, errors="surrogateescape"):
                m = re.search(r'open(?:at)?\((?:AT_FDCWD, )?"((?:[^"\\]|\\.)*)", ([A-Z_|]+)', ln)
                if not m or "O_WRONLY" in m.group(2) or "O_RDWR" in m.group(2) or "O_DIRECTORY" in m.group(2):
                    continue
                pth = m.group(1).encode("latin1", "backslashreplace").decode("unicode_escape").encode("latin1").decode("utf-8", "replace")
                full = os.path.normpath(os.path.join(d, pth))
                if full.startswith(d + "/") and os.path.isfile(full):
                    opened.add(os.path.relpath(full, d))
            opened.discard(out)
            opened.discard(dep)
            opened.discard("plain.d")
            want = set(os.path.normpath(x) for x in expected)
            if opened != want:
                chk.tie_break("the files wild opened (strace) are not the files of the construction", dict(rep, only_opened=sorted(opened - want), only_expected=sorted(want - opened)))
            raw = open(f"{d}/{dep}", "rb").read()
            line = raw.split(b"\n")[0] + b"\n"
            parsed = py_read_rule(line)
            bad = []
            if parsed is None:
                bad.append("the first line is not a rule")
            else:
                tgt, deps = parsed
                deps_n = [os.path.normpath(os.path.relpath(os.path.join(d, x.decode("utf-8", "replace")), d)) for x in deps]
                stats["prerequisites"] += len(deps)
                if tgt.decode("utf-8", "replace") != out:
                    bad.append(f"target read back as {tgt!r}, the output is {out!r}")
                if len(set(deps_n)) != len(deps_n):
                    bad.append("a prerequisite is listed twice: " + ", ".join(sorted(x for x in set(deps_n) if deps_n.count(x) > 1)))
                missing = sorted(opened - set(deps_n))
                extra = sorted(set(deps_n) - opened)
                if missing:
                    bad.append("files the link read are not prerequisites: " + ", ".join(repr(x) for x in missing))
                if extra:
                    bad.append("prerequisites that are not files the link read (as Make reads the line): " + ", ".join(repr(x) for x in extra))
            # GNU make as the consumer
            shutil.copy(f"{d}/{dep}", f"{d}/plain.d")
            open(f"{d}/wrap.mk", "wb").write(b"include plain.d\n" + line.split(b":")[0] + b":\n\t@echo REBUILD\n")
            os.utime(f"{d}/{out}", None)
            now = time.time()
            for x in opened:
                os.utime(f"{d}/{x}", (now - 100, now - 100))
            rc0 = subprocess.run(["make", "-q", "-f", "wrap.mk", out], cwd=d, stdout=subprocess.PIPE, stderr=subprocess.STDOUT).returncode
            if rc0 != 0 and not bad:
                bad.append(f"GNU make does not consider the output up to date right after the link (make -q: {rc0})")
            for x in sorted(opened):
                os.utime(f"{d}/{x}", (now + 100, now + 100))
                rc1 = subprocess.run(["make", "-q", "-f", "wrap.mk", out], cwd=d, stdout=subprocess.PIPE, stderr=subprocess.STDOUT).returncode
                os.utime(f"{d}/{x}", (now - 100, now - 100))
                stats["touch_probes"] += 1
                if rc1 != 1:
                    bad.append(f"after `{x}` changed GNU make does not rerun the link (make -q: {rc1})")
            if bad:
                chk.violation(f"dependency file wrong (seed {seed}): " + "; ".join(bad[:3]), dict(rep, problems=bad, dep_file_content=raw.decode("utf-8", "replace")[:1500]))
            if len(line) < 3000:
                items.append("read_rule [" + "; ".join(str(b) for b in line) + "]")
                expect.append((parsed, rep))
            shutil.rmtree(d, ignore_errors=True)
    finally:
        shutil.rmtree(base, ignore_errors=True)
    if items:
        per = (len(items) + NCPU - 1) // NCPU
        bodies = ["Eval vm_compute in [\n" + ";\n".join(items[j * per:(j + 1) * per]) + "].\n" for j in range(NCPU) if items[j * per:(j + 1) * per]]
        flat, okm = [], True
        for rc_, o in coq_eval_sharded("c25", "From Coq Require Import NArith List Bool. Import ListNotations.\nFrom WV Require Import C25.Model.\nOpen Scope N_scope.\n", bodies, timeout=600):
            if rc_ != 0:
                chk.tie_break("model evaluation failed (coqc)", o[-1500:])
                okm = False
                continue
            flat += parse_coq_value(o)
        if okm and len(flat) == len(expect):
            for mv, (parsed, rep) in zip(flat, expect):
                m = None
                if isinstance(mv, (tuple, list)) and len(mv) == 2 and mv[0] == "Some":
                    t, ds = mv[1]
                    m = (bytes(t), [bytes(x) for x in ds])
                if m != parsed:
                    stats["model_mismatch"] += 1
                    chk.tie_break("correspondence C25.read_rule: the Coq reader and its Python transcription disagree on a real dependency file", dict(rep, coq=str(m)[:300], python=str(parsed)[:300]))
        elif okm:
            chk.tie_break("model evaluation: wrong number of answers", {"items": len(expect), "answers": len(flat)})
    chk.cov.update({
        "evaluations": stats["accepted"], "distinct_nontrivial": stats["touch_probes"],
        "rule": "per case a random mix of objects (30% given twice), used/unused/whole archives, thin archive + member, implicit INPUT() script + the object it names, -L/-l, --start-lib, shared "
                "library, -T script, version script, export list; 60% of cases use names with spaces, $, #, quotes, parentheses, ;, &, *, tab, non-ASCII, =, %, ~, !",
        "stats": stats,
    })
    return chk.finish(TRUSTED)
