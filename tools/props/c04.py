"""C04 — output ELF files are structurally well-formed.
Theorems: coq/C04/Props.v (layout core: offsets and addresses advance together inside a LOAD segment, p_offset = p_vaddr
mod p_align with p_align the largest alignment in the segment, every part aligned, no two parts overlap in the file or
in memory, alignment survives any permitted load bias).
Tie T2 end to end: generated objects (sections of many kinds, flags, alignments 1..64 KiB, TLS data and bss, init/fini
arrays, RELRO data, big and empty sections) and three C-library programs are linked by wild as static, static-PIE, PIE,
dynamic, shared and relocatable outputs under page sizes, -z options, --section-start and linker scripts.
Property predicate on the real file (structure()): every clause of the property, on the ELF header, the program
headers and the section headers.  Model vs implementation: the sections of every LOAD segment are laid out again by
C04.Model.layout_parts / layout_segment from the running offsets and compared with sh_offset / sh_addr; p_align is
compared with seg_alignment.  Since the hook WILD_VERIF_LAYOUT: the event stream layout_section_parts walked (segment
starts, located sections, every part with alignment/size/has-file-data) is replayed by C04.Model.run_events and every
offset/address wild chose is compared; the section headers of the file are compared with the parts in the trace."""
from wvlib import *
import tempfile, shutil, struct
import elfread

TRUSTED = [
    "Coq 8.16.1 kernel incl. vm_compute; axioms: none",
    "C04/Model.v models the allocated part of layout_section_parts for executables and shared objects (SegmentStart + Section events); Alignment::align_up / align_modulo are taken at their C29 specifications; "
    "which sections go to which segment (build_output_order_and_program_segments) and the header writers are not modelled: their result is checked on the real files by structure()",
    "the hook libwild::verif_hooks::layout_trace reports the events and results of layout_section_parts faithfully (it copies the values out of the loop)",
    "the structural predicate is implemented in tools/props/c04.py (not in Coq) and reads the file with tools/elfread.py",
]

PT = {1: "LOAD", 2: "DYNAMIC", 3: "INTERP", 4: "NOTE", 6: "PHDR", 7: "TLS", 0x6474e550: "GNU_EH_FRAME", 0x6474e551: "GNU_STACK", 0x6474e552: "GNU_RELRO", 0x6474e553: "GNU_PROPERTY"}
SHF_W, SHF_A, SHF_X, SHF_TLS = 1, 2, 4, 0x400
NOBITS = 8


def structure(path, kind, page, relro=True, scripted=False):
    """Every clause of C04 on one output file.  Returns (problems, facts)."""
    bad = []
    try:
        e = elfread.Elf(path)
    except Exception as ex:
        return [f"not a readable ELF64 file: {ex}"], {}
    size = len(e.b)
    if kind == "relocatable":
        if e.e_type != 1:
            bad.append(f"e_type {e.e_type} for a relocatable output")
        if e.e_phnum:
            bad.append("a relocatable output has program headers")
    else:
        want = 2 if kind in ("static", "dynamic-nopie") else 3
        if e.e_type != want:
            bad.append(f"e_type {e.e_type}, expected {want} for {kind}")
        if e.e_phentsize != 56 or e.e_phoff + 56 * e.e_phnum > size:
            bad.append("program header table outside the file")
    if e.e_shnum and (e.e_shentsize != 64 or e.e_shoff + 64 * e.e_shnum > size or e.e_shstrndx >= e.e_shnum):
        bad.append("section header table outside the file or bad e_shstrndx")
    if e.e_shoff % 8 or e.e_phoff % 8:
        bad.append("header tables not 8-byte aligned")
    secs = [s for s in e.shdrs if s["index"] != 0]
    alloc = [s for s in secs if s["flags"] & SHF_A]
    loads = [p for p in e.phdrs if p["type"] == 1]
    facts = {"sections": len(secs), "alloc": len(alloc), "loads": len(loads), "tls": 0, "nobits": sum(1 for s in alloc if s["type"] == NOBITS)}
    s0 = e.shdrs[0] if e.shdrs else None
    if s0 and (s0["type"] or s0["name_off"] or s0["offset"] or s0["entsize"] or s0["align"] or s0["flags"] or s0["addr"] or s0["info"]
               or (s0["size"] and e.e_shnum) or (s0["link"] and e.e_shstrndx != 0xffff)):
        bad.append(f"section header 0 is not the null header the gABI requires (flags {s0['flags']:#x}, address {s0['addr']:#x})")
    # -- the tables that describe the file itself
    for nm in (".symtab", ".strtab", ".shstrtab", ".dynsym", ".dynstr", ".dynamic"):
        n = sum(1 for s in secs if s["name"] == nm)
        if n > 1:
            bad.append(f"{n} sections named {nm}")
    for s in secs:
        if s["type"] in (2, 11):              # SYMTAB / DYNSYM
            lk = e.shdrs[s["link"]] if s["link"] < len(e.shdrs) else None
            if lk is None or lk["type"] != 3:
                bad.append(f"{s['name']}: sh_link {s['link']} is not a string table")
            if s["entsize"] != 24 or s["size"] % 24:
                bad.append(f"{s['name']}: entry size {s['entsize']}, size {s['size']:#x}")
            elif s["info"] > s["size"] // 24:
                bad.append(f"{s['name']}: sh_info {s['info']} exceeds the number of symbols")
    if e.e_shnum and e.e_shstrndx < e.e_shnum and e.shdrs[e.e_shstrndx]["type"] != 3:
        bad.append("e_shstrndx does not name a string table")
    # -- file extents: headers and every section with bytes in the file are inside it and pairwise disjoint
    ext = [("ELF header", 0, 64)]
    if e.e_phnum:
        ext.append(("program headers", e.e_phoff, e.e_phoff + 56 * e.e_phnum))
    if e.e_shnum:
        ext.append(("section headers", e.e_shoff, e.e_shoff + 64 * e.e_shnum))
    for s in secs:
        if s["type"] != NOBITS and s["size"]:
            if s["offset"] + s["size"] > size:
                bad.append(f"{s['name']} extends past the end of the file")
            ext.append((s["name"], s["offset"], s["offset"] + s["size"]))
        if s["align"] & (s["align"] - 1):
            bad.append(f"{s['name']}: sh_addralign {s['align']} is not a power of two")
        elif s["align"] > 1 and s["type"] != NOBITS and s["offset"] % s["align"] and not (s["flags"] & SHF_A):
            bad.append(f"{s['name']}: file offset {s['offset']:#x} not aligned to {s['align']}")
    ext.sort(key=lambda x: (x[1], x[2]))
    for a, b in zip(ext, ext[1:]):
        if a[2] > b[1]:
            bad.append(f"{a[0]} [{a[1]:#x},{a[2]:#x}) and {b[0]} [{b[1]:#x},{b[2]:#x}) overlap in the file")
    if kind == "relocatable":
        for s in alloc:
            if s["addr"]:
                bad.append(f"{s['name']} has an address in a relocatable output")
            if s["align"] > 1 and s["type"] != NOBITS and s["offset"] % s["align"]:
                bad.append(f"{s['name']}: offset {s['offset']:#x} not aligned to {s['align']} in a relocatable output")
        return bad, facts
    # -- segments
    for i, p in enumerate(e.phdrs):
        nm = PT.get(p["type"], hex(p["type"]))
        if p["type"] != 0x6474e551 and (p["flags"] & 3) == 3:
            bad.append(f"segment {i} ({nm}) is both writable and executable")
        if p["type"] != 0x6474e551 and p["filesz"] and p["offset"] + p["filesz"] > size:
            bad.append(f"segment {i} ({nm}) extends past the end of the file")
        if p["type"] not in (0x6474e551,) and p["filesz"] > p["memsz"]:
            bad.append(f"segment {i} ({nm}) has p_filesz > p_memsz")
        if p["type"] != 1 and p["type"] != 0x6474e551 and p["memsz"]:
            if not any(l["vaddr"] <= p["vaddr"] and p["vaddr"] + p["memsz"] <= l["vaddr"] + l["memsz"] and p["offset"] - l["offset"] == p["vaddr"] - l["vaddr"] for l in loads):
                bad.append(f"segment {i} ({nm}) [{p['vaddr']:#x}+{p['memsz']:#x}] is not inside one LOAD segment with the same file mapping")
    for a, b in zip(loads, loads[1:]):
        if a["vaddr"] + a["memsz"] > b["vaddr"]:
            bad.append(f"LOAD segments at {a['vaddr']:#x} and {b['vaddr']:#x} overlap or are not in ascending order")
        if a["memsz"] and b["memsz"] and (a["vaddr"] + a["memsz"] - 1) // page == b["vaddr"] // page and a["flags"] != b["flags"]:
            bad.append(f"LOAD segments with different permissions share the memory page {b['vaddr'] // page * page:#x}")
    # file extents of LOAD segments are pairwise disjoint (in whatever order they lie in the file)
    for i, a in enumerate(loads):
        for b in loads[i + 1:]:
            if a["filesz"] and b["filesz"] and a["offset"] < b["offset"] + b["filesz"] and b["offset"] < a["offset"] + a["filesz"]:
                bad.append(f"LOAD segments at {a['vaddr']:#x} and {b['vaddr']:#x} overlap in the file")
    for p in loads:
        al = p["align"]
        if al & (al - 1) or al == 0:
            bad.append(f"LOAD at {p['vaddr']:#x}: p_align {al:#x} is not a power of two")
        elif (p["offset"] - p["vaddr"]) % al:
            bad.append(f"LOAD at {p['vaddr']:#x}: p_offset {p['offset']:#x} is not congruent to p_vaddr modulo p_align {al:#x}")
        elif al < page:
            bad.append(f"LOAD at {p['vaddr']:#x}: p_align {al:#x} is below the page size {page:#x}")
    # -- sections against segments
    relro = [p for p in e.phdrs if p["type"] == 0x6474e552]
    for s in alloc:
        if s["align"] > 1 and s["addr"] % s["align"]:
            bad.append(f"{s['name']}: address {s['addr']:#x} violates sh_addralign {s['align']:#x}")
        tbss = s["type"] == NOBITS and s["flags"] & SHF_TLS
        homes = [p for p in loads if p["vaddr"] <= s["addr"] and s["addr"] + s["size"] <= p["vaddr"] + p["memsz"]]
        if s["size"] == 0 and not homes:
            continue
        if tbss and not homes:
            continue                       # GNU convention: .tbss takes no address space of its own
        if s["size"] == 0 and homes:
            homes = homes[-1:]              # an empty section on the boundary of two segments belongs to either
        if len(homes) != 1:
            bad.append(f"{s['name']} [{s['addr']:#x}+{s['size']:#x}] lies inside {len(homes)} LOAD segments")
            continue
        p = homes[0]
        if s["align"] > p["align"] and e.e_type == 3:
            bad.append(f"{s['name']}: sh_addralign {s['align']:#x} exceeds the p_align {p['align']:#x} of its LOAD segment in a position-independent output")
        if s["type"] != NOBITS:
            if s["offset"] - p["offset"] != s["addr"] - p["vaddr"]:
                bad.append(f"{s['name']}: file offset {s['offset']:#x} does not map to address {s['addr']:#x} through its LOAD segment")
            elif s["offset"] + s["size"] > p["offset"] + p["filesz"]:
                bad.append(f"{s['name']}: contents extend past its LOAD segment's p_filesz")
        elif s["size"]:
            lo = s["addr"] - p["vaddr"]
            inside = max(0, min(p["filesz"], lo + s["size"]) - lo) if lo < p["filesz"] else 0
            if inside and any(e.b[p["offset"] + lo:p["offset"] + lo + inside].strip(b"\0")):
                bad.append(f"NOBITS section {s['name']} is backed by non-zero file bytes of its LOAD segment")
        w, x = bool(s["flags"] & SHF_W), bool(s["flags"] & SHF_X)
        if w != bool(p["flags"] & 2) or x != bool(p["flags"] & 1) or not (p["flags"] & 4):
            bad.append(f"{s['name']} (flags {'W' if w else ''}A{'X' if x else ''}) is in a LOAD segment with permissions {'R' if p['flags'] & 4 else ''}{'W' if p['flags'] & 2 else ''}{'X' if p['flags'] & 1 else ''}")
    mem = sorted(((s["addr"], s["addr"] + s["size"], s["name"]) for s in alloc if s["size"] and not (s["type"] == NOBITS and s["flags"] & SHF_TLS)))
    for a, b in zip(mem, mem[1:]):
        if a[1] > b[0]:
            bad.append(f"{a[2]} [{a[0]:#x},{a[1]:#x}) and {b[2]} [{b[0]:#x},{b[1]:#x}) overlap in memory")
    # -- special segments
    def sec(name):
        return e.section(name)

    def exact(i, p, s, nm):
        if s is None:
            bad.append(f"PT_{nm} present but no {nm.lower()} section")
        elif (p["offset"], p["vaddr"], p["filesz"], p["memsz"]) != (s["offset"], s["addr"], s["size"], s["size"]):
            bad.append(f"PT_{nm} [{p['vaddr']:#x}+{p['memsz']:#x} @{p['offset']:#x}] does not cover exactly {s['name']} [{s['addr']:#x}+{s['size']:#x} @{s['offset']:#x}]")
    seen = {}
    for i, p in enumerate(e.phdrs):
        seen[p["type"]] = seen.get(p["type"], 0) + 1
        if p["type"] == 2:
            exact(i, p, sec(".dynamic"), "DYNAMIC")
        elif p["type"] == 3:
            exact(i, p, sec(".interp"), "INTERP")
            s = sec(".interp")
            if s and (not e.data(s).endswith(b"\0") or b"\0" in e.data(s)[:-1]):
                bad.append(".interp is not one NUL-terminated string")
        elif p["type"] == 6:
            if (p["offset"], p["filesz"], p["memsz"]) != (e.e_phoff, 56 * e.e_phnum, 56 * e.e_phnum):
                bad.append("PT_PHDR does not cover exactly the program header table")
        elif p["type"] == 0x6474e550:
            exact(i, p, sec(".eh_frame_hdr"), "GNU_EH_FRAME")
        elif p["type"] == 0x6474e553:
            exact(i, p, sec(".note.gnu.property"), "GNU_PROPERTY")
        elif p["type"] == 4:
            notes = [s for s in alloc if s["type"] == 7 and p["vaddr"] <= s["addr"] and s["addr"] + s["size"] <= p["vaddr"] + p["memsz"]]
            if not notes or min(s["addr"] for s in notes) != p["vaddr"] or max(s["addr"] + s["size"] for s in notes) != p["vaddr"] + p["memsz"]:
                bad.append(f"PT_NOTE [{p['vaddr']:#x}+{p['memsz']:#x}] does not cover exactly a run of note sections")
        elif p["type"] == 7:
            tls = [s for s in alloc if s["flags"] & SHF_TLS]
            facts["tls"] = len(tls)
            if not tls:
                bad.append("PT_TLS without TLS sections")
                continue
            lo = min(s["addr"] for s in tls)
            hi = max(s["addr"] + s["size"] for s in tls)
            dat = [s for s in tls if s["type"] != NOBITS]
            dhi = max([s["addr"] + s["size"] for s in dat], default=lo)
            if p["vaddr"] != lo or p["vaddr"] + p["memsz"] != hi:
                bad.append(f"PT_TLS [{p['vaddr']:#x}+{p['memsz']:#x}] does not cover exactly the TLS sections [{lo:#x},{hi:#x})")
            elif p["filesz"] < dhi - lo:
                bad.append(f"PT_TLS p_filesz {p['filesz']:#x} does not cover the initialised TLS data ({dhi - lo:#x})")
            elif p["filesz"] > dhi - lo and any(e.b[p["offset"] + dhi - lo:p["offset"] + p["filesz"]].strip(b"\0")):
                bad.append("PT_TLS initialisation image continues with non-zero bytes after .tdata")
            if p["align"] < max(s["align"] for s in tls):
                bad.append(f"PT_TLS p_align {p['align']} is below a TLS section's alignment")
            elif p["align"] and (p["vaddr"] - p["offset"]) % p["align"]:
                bad.append("PT_TLS p_offset is not congruent to p_vaddr modulo p_align")
        elif p["type"] == 0x6474e552:
            lo, hi = p["vaddr"], p["vaddr"] + p["memsz"]
            inside = []
            for s in alloc:
                if not s["size"] or (s["type"] == NOBITS and s["flags"] & SHF_TLS):
                    continue
                a, b = s["addr"], s["addr"] + s["size"]
                if a < hi and b > lo:
                    if not (lo <= a and b <= hi):
                        bad.append(f"{s['name']} straddles the RELRO boundary")
                    if not s["flags"] & SHF_W:
                        bad.append(f"read-only section {s['name']} is inside PT_GNU_RELRO")
                    inside.append(s["name"])
                elif s["flags"] & SHF_W and (a // page == lo // page and a < lo or (b - 1) // page < hi // page and a >= hi):
                    bad.append(f"writable section {s['name']} [{a:#x},{b:#x}) shares a page that PT_GNU_RELRO [{lo:#x},{hi:#x}) makes read-only")
            # (under a SECTIONS script which sections share the RELRO region is the script's business: without
            #  DATA_SEGMENT_RELRO_END GNU ld protects nothing at all)
            for nm in (() if scripted else (".init_array", ".fini_array", ".preinit_array", ".data.rel.ro", ".dynamic", ".tdata")):
                s = sec(nm)
                if s and s["size"] and nm not in inside:
                    bad.append(f"{nm} is not inside PT_GNU_RELRO")
            for nm in (".data", ".bss"):
                if nm in inside:
                    bad.append(f"{nm} is inside PT_GNU_RELRO")
    for t in (2, 3, 6, 7, 0x6474e552, 0x6474e550):
        if seen.get(t, 0) > 1:
            bad.append(f"{seen[t]} PT_{PT[t]} segments")
    if sec(".dynamic") and not seen.get(2):
        bad.append(".dynamic without PT_DYNAMIC")
    if sec(".interp") and not seen.get(3):
        bad.append(".interp without PT_INTERP")
    if any(s["flags"] & SHF_TLS and s["size"] for s in alloc) and not seen.get(7):
        bad.append("TLS sections without PT_TLS")
    if e.e_entry and not any(p["flags"] & 1 and p["vaddr"] <= e.e_entry < p["vaddr"] + p["memsz"] for p in loads):
        bad.append(f"e_entry {e.e_entry:#x} is not inside an executable LOAD segment")
    facts["elf"] = e
    return bad, facts


# ---------------------------------------------------------------------------------------------------------------------
def gen_object(rng, idx, tls_ok=True):
    """one assembly file with a random selection of sections; every section is referenced from keep<idx> so that
    --gc-sections keeps it"""
    s = []
    refs = []
    def add(name, flags, typ, align, body, label):
        s.append(f'.section {name},"{flags}",{typ}')
        s.append(f".balign {align}")
        s.append(f"{label}:")
        s.extend(body)
        refs.append(label)
    n = 0
    aligns = [1, 2, 4, 8, 16, 16, 32, 64, 256, 4096, 8192, 65536]
    def al():
        return rng.choice(aligns[:rng.choice([6, 8, 12])])
    def size():
        return rng.choice([0, 1, 3, 8, 17, 100, 1000, 5000, 70000])
    for kind in rng.sample(["text", "text2", "rodata", "rodata2", "data", "data2", "bss", "bss2", "tdata", "tbss", "init", "fini", "relro", "ro16", "exec2", "lbss"], rng.randrange(3, 12)):
        lab = f"o{idx}_{kind}"
        if kind in ("text", "text2", "exec2"):
            add(f".text.{lab}" if kind != "exec2" else f".myexec{idx}", "ax", "@progbits", al(), [" nop"] * rng.choice([1, 5, 40]) + [" ret"], lab)
        elif kind in ("rodata", "rodata2"):
            add(f".rodata.{lab}", "a", "@progbits", al(), [f" .zero {max(1, size())}"], lab)
        elif kind == "ro16":
            add(f".myro{idx}", "a", "@progbits", al(), [" .quad 1, 2"], lab)
        elif kind in ("data", "data2"):
            add(f".data.{lab}" if kind == "data" else f".mydata{idx}", "aw", "@progbits", al(), [" .byte 7", f" .zero {size()}"], lab)
        elif kind in ("bss", "bss2", "lbss"):
            add(f".bss.{lab}" if kind != "bss2" else f".mybss{idx}", "aw", "@nobits", al(), [f" .zero {max(1, size())}"], lab)
        elif kind == "tdata" and tls_ok:
            add(f".tdata.{lab}", "awT", "@progbits", rng.choice([1, 4, 8, 16, 64]), [" .long 5", f" .zero {rng.choice([0, 4, 60])}"], lab)
        elif kind == "tbss" and tls_ok:
            add(f".tbss.{lab}", "awT", "@nobits", rng.choice([1, 4, 8, 16, 64, 4096, 65536]), [f" .zero {rng.choice([4, 100, 5000])}"], lab)
        elif kind == "init":
            add(".init_array", "aw", "@init_array", 8, [f" .quad keep{idx}"], lab)
        elif kind == "fini":
            add(".fini_array", "aw", "@fini_array", 8, [f" .quad keep{idx}"], lab)
        elif kind == "relro":
            add(f".data.rel.ro.{lab}", "aw", "@progbits", al(), [f" .quad keep{idx}", f" .zero {rng.choice([0, 8, 100])}"], lab)
    s += ['.section .text.keep,"ax",@progbits', f".globl keep{idx}", f".type keep{idx},@function", f"keep{idx}:"]
    for r in refs:
        if "_tdata" in r or "_tbss" in r:
            continue
        s.append(f" lea {r}(%rip), %rax")
    s.append(" ret")
    return "\n".join(s) + "\n", refs


KINDS = {
    "static": [],
    "static-pie": ["-static", "-pie", "--no-dynamic-linker"],
    "pie": ["-pie", "-dynamic-linker", "/lib64/ld-linux-x86-64.so.2"],
    "dynamic-nopie": ["-dynamic-linker", "/lib64/ld-linux-x86-64.so.2"],
    "shared": ["-shared"],
    "relocatable": ["-r"],
}

SCRIPT = """SECTIONS {
  . = %s;
  .text : { *(.text .text.*) }
  .rodata : { *(.rodata .rodata.*) }
  . = ALIGN(0x1000);
  .data : { *(.data .data.*) }
  .bss : { *(.bss .bss.*) }
}
"""


def gen_case(rng):
    nobj = rng.randrange(1, 4)
    kind = rng.choice(list(KINDS))
    files = {}
    tls_ok = True
    for i in range(nobj):
        src, refs = gen_object(rng, i, tls_ok)
        files[f"o{i}.s"] = src
    main = ['.section .text._start,"ax",@progbits', ".globl _start", ".type _start,@function", "_start:"] + [f" call keep{i}" for i in range(nobj)]
    if kind in ("pie", "dynamic-nopie", "shared") and rng.random() < 0.7:
        main.append(" call extfn@PLT")
        main.append(" mov extvar@GOTPCREL(%rip), %rax")
    main += [" ret"]
    files["main.s"] = "\n".join(main) + "\n"
    opts = []
    page = 0x1000
    r = rng.random()
    if r < 0.25:
        page = rng.choice([0x1000, 0x4000, 0x10000, 0x200000])
        opts += ["-z", f"max-page-size={page:#x}"]
    located = False
    if kind != "relocatable":
        if rng.random() < 0.2:
            opts += ["-z", "norelro"]
        if rng.random() < 0.2:
            opts += ["-z", "now"]
        if rng.random() < 0.3:
            opts += [rng.choice(["--gc-sections", "--no-gc-sections"])]
        if rng.random() < 0.15:
            opts += ["-z", rng.choice(["separate-code", "noseparate-code"])]
        if rng.random() < 0.15:
            opts += ["--eh-frame-hdr"]
        if rng.random() < 0.15:
            opts += ["--hash-style=" + rng.choice(["gnu", "sysv", "both"])]
        if rng.random() < 0.1:
            opts += ["--build-id"]
        if kind in ("static", "dynamic-nopie") and rng.random() < 0.15:
            which = rng.choice([".data", ".text", ".bss", ".rodata"])
            # forwards of the default image base and, for a third of them, backwards (the location counter moves down)
            opts += [f"--section-start={which}={rng.choice([0x800000, 0x1000000, 0x900010, 0x2000000, 0x100000, 0x200000]):#x}"]
            located = True
    script = None
    backwards = False
    if kind in ("static", "shared") and not located and rng.random() < 0.15:
        script = SCRIPT % rng.choice(["0x400000 + SIZEOF_HEADERS", "0x10000", "0x800000"])
        if rng.random() < 0.3:
            script = script.replace(". = ALIGN(0x1000);", ". = 0x200000;" if "0x10000;" not in script else ". = 0x4000;")      # .data placed below .text
            backwards = True
        located = True
        if rng.random() < 0.5 and "--no-gc-sections" not in opts:
            opts = [o for o in opts if o != "--gc-sections"] + ["--no-gc-sections"]
    return {"kind": kind, "files": files, "opts": opts, "page": page, "script": script, "located": located, "nobj": nobj, "backwards": backwards}


HELLO = r"""
#include <stdio.h>
#include <stdlib.h>
#include <string.h>
__thread int tl = 5; __thread char tz[300];
static char big[70000] __attribute__((aligned(4096)));
const char *const names[] = {"a", "b", "c"};
__attribute__((constructor)) static void init(void) { big[1] = 1; }
int main(int argc, char **argv) { tz[3] = 2; printf("%s %d %d\n", names[argc % 3], tl + tz[3], big[1]); char *p = malloc(10); strcpy(p, "x"); free(p); return 0; }
"""


def libc_links(d, wild):
    """(name, kind, argv) for C-library programs; objects compiled once"""
    gccdir = sh("dirname $(gcc -print-libgcc-file-name)")[1].strip()
    lib = "/usr/lib/x86_64-linux-gnu"
    open(d + "/hello.c", "w").write(HELLO)
    rc, out = sh(f"cd {d} && gcc -O1 -fPIE -c hello.c -o hello.o && gcc -O1 -fPIC -c hello.c -o hello_pic.o -Dmain=lib_entry", timeout=120)
    if rc:
        return None, out
    grp = f"--start-group {lib}/libc.a {gccdir}/libgcc.a {gccdir}/libgcc_eh.a --end-group"
    dyn = f"{lib}/libc.so.6 {gccdir}/libgcc.a /lib64/ld-linux-x86-64.so.2"
    return [
        ("libc-static", "static", f"-static {lib}/crt1.o {lib}/crti.o {gccdir}/crtbeginT.o hello.o {grp} {gccdir}/crtend.o {lib}/crtn.o", True),
        ("libc-static-pie", "static-pie", f"-static -pie --no-dynamic-linker {lib}/rcrt1.o {lib}/crti.o {gccdir}/crtbeginS.o hello.o {grp} {gccdir}/crtendS.o {lib}/crtn.o", True),
        ("libc-pie", "pie", f"-pie -dynamic-linker /lib64/ld-linux-x86-64.so.2 {lib}/Scrt1.o {lib}/crti.o {gccdir}/crtbeginS.o hello.o {dyn} {gccdir}/crtendS.o {lib}/crtn.o", True),
        ("libc-pie-now-64k", "pie", f"-pie -z now -z max-page-size=0x10000 -dynamic-linker /lib64/ld-linux-x86-64.so.2 {lib}/Scrt1.o {lib}/crti.o {gccdir}/crtbeginS.o hello.o {dyn} {gccdir}/crtendS.o {lib}/crtn.o", True),
        ("libc-shared", "shared", f"-shared {lib}/crti.o {gccdir}/crtbeginS.o hello_pic.o {dyn} {gccdir}/crtendS.o {lib}/crtn.o", False),
    ], ""


def parse_trace(path):
    """the hook's record of layout_section_parts: header, events for the model, the offsets wild chose, per-section parts"""
    lines = open(path).read().split("\n")
    hdr = lines[0].split()
    page, partial, base = int(hdr[1]), int(hdr[2]), int(hdr[3])
    evs, outs, sections, segs = [], [], [], []
    cur = None
    seg = None
    for ln in lines[1:]:
        if not ln:
            continue
        t = ln.split(" ", 1)
        if t[0] == "N":
            cur = {"name": t[1].split("`")[1], "secondary": t[1].endswith("(secondary)"), "parts": []}
            sections.append(cur)
            continue
        v = [int(x) for x in t[1].split()] if len(t) > 1 else []
        if t[0] == "S":
            evs.append(f"ESeg {v[0]}")
            outs.append((0, v[1], v[2]))
            seg = {"align": v[0], "parts": [], "vaddr": v[2]}
            segs.append(seg)
        elif t[0] == "T":
            evs.append(f"ESegAt {v[0]} {v[1]}")
            outs.append((0, v[2], v[3]))
            seg = {"align": v[0], "parts": [], "vaddr": v[3], "located": True}
            segs.append(seg)
        elif t[0] == "E":
            seg = None
        elif t[0] == "L":
            evs.append(f"ESecAt {v[0]}")
            if seg is not None:
                seg["located"] = True
        elif t[0] == "P":
            al, msz, fsz, alloc, data, fo, mo = v
            if alloc:
                evs.append(f"EPart (P {al} {msz} {data})")
                outs.append((1, fo, mo))
                if seg is not None:
                    seg["parts"].append((al, msz, data))
            else:
                evs.append(f"ENonAlloc {al} {msz}")
                outs.append((2, fo, 0))
            cur["parts"].append({"align": al, "mem_size": msz, "file_size": fsz, "alloc": alloc, "file": fo, "mem": mo})
    return {"page": page, "partial": partial, "base": base, "events": evs, "outs": outs, "sections": sections, "segments": segs}


IMPORTS = """From Coq Require Import ZArith List Bool. Import ListNotations.
From WV Require Import C04.Model.
Open Scope Z_scope.
Definition P (a s : Z) (d : Z) : part := {| pa := a; psize := s; pdata := (0 <? d) |}.
Definition show (o : outrec) := match o with OSeg f m => (0, f, m) | OPart f m => (1, f, m) | OFile f => (2, f, 0) end.
Definition run (base : Z) (evs : list event) := map show (run_events 0 base evs).
"""


def run(chk, replay=None):
    coq = coq_build(["C04"], ["C04/Props.v"])
    chk.add_coq(coq)
    okw, outw, wild = wild_build()
    if not okw:
        chk.tie_break("wild does not build", outw[-2000:])
        return chk.finish(TRUSTED)
    rng = chk.rng
    seeds = [rng.randrange(1 << 30) for _ in range(60 if chk.tier == "quick" else 600)]
    if replay:
        seeds = json.load(open(replay))["replay"].get("seeds", seeds)
    known = {k["id"]: k for k in chk.known}
    stats = {"links": 0, "accepted": 0, "rejected": 0, "by_kind": {}, "sections": 0, "loads": 0, "with_tls": 0, "nobits": 0, "located": 0, "scripts": 0, "page_sizes": {},
             "model_segments": 0, "model_events": 0, "model_sections": 0, "model_mismatch": 0, "header_mismatch": 0, "libc_programs": 0}
    items = []
    expect = []
    d = tempfile.mkdtemp(prefix="c04")

    def examine(path, kind, page, rep, located, relro=True):
        bad, facts = structure(path, kind, page, scripted="-T" in (rep.get("opts") or []))
        stats["accepted"] += 1
        stats["by_kind"][kind] = stats["by_kind"].get(kind, 0) + 1
        stats["sections"] += facts.get("sections", 0)
        stats["loads"] += facts.get("loads", 0)
        stats["nobits"] += facts.get("nobits", 0)
        stats["with_tls"] += int(facts.get("tls", 0) > 0)
        stats["page_sizes"][hex(page)] = stats["page_sizes"].get(hex(page), 0) + 1
        rest = []
        for b in bad:
            hit = None
            for k in known.values():
                if re.search(k["match"], f"[{rep.get('name') or 'generated'}] {b}"):
                    hit = k["id"]
            if hit:
                chk.known_hit(hit, dict(rep, problem=b))
            else:
                rest.append(b)
        if rest:
            chk.violation(f"output is not a well-formed ELF image ({kind}, {rep.get('name') or 'seed ' + str(rep['seeds'][0])}, {' '.join(rep.get('opts', [])) or 'default options'}): " + "; ".join(rest[:4]),
                          dict(rep, problems=rest))
        e = facts.get("elf")
        if e is None or kind == "relocatable":
            return
        tpath = os.path.dirname(path) + "/trace"
        if not os.path.exists(tpath):
            chk.tie_break("the layout hook wrote no trace (WILD_VERIF_LAYOUT)", rep)
            return
        tr = parse_trace(tpath)
        if tr["page"] != page:
            chk.tie_break(f"page size in the trace {tr['page']:#x} is not the one asked for {page:#x}", rep)
        items.append(f"run {tr['base']} [" + "; ".join(tr["events"]) + "]")
        expect.append((tr["outs"], rep))
        stats["model_events"] += len(tr["events"])
        for seg in tr["segments"]:
            stats["model_segments"] += 1
            want_align = max([tr["page"]] + [a for a, sz, dd in seg["parts"]])
            if seg["align"] != want_align:
                chk.tie_break(f"correspondence C04.seg_alignment: the LOAD segment at {seg['vaddr']:#x} was started with alignment {seg['align']:#x}, not max(page, part alignments) = {want_align:#x}", rep)
            seen_nobits = False
            for a, sz, dd in seg["parts"]:
                if sz and not dd:
                    seen_nobits = True
                elif sz and dd and seen_nobits and not seg.get("located"):
                    chk.tie_break(f"a LOAD segment (at {seg['vaddr']:#x}) has a part with file contents after a NOBITS part: outside the theorem's premise (ds ++ ns)", rep)
                    break
        # the section headers against the trace: a section starts at its first non-empty part and spans to the last
        by = {}
        for sc in tr["sections"]:
            by.setdefault(sc["name"], []).extend(x for x in sc["parts"] if x["mem_size"])
        for sh_ in e.shdrs[1:]:
            parts = by.get(sh_["name"])
            if not parts or not sh_["size"]:
                continue
            stats["model_sections"] += 1
            first, last = parts[0], parts[-1]
            want = (first["file"], first["mem"] if first["alloc"] else 0, (last["mem"] + last["mem_size"] - first["mem"]) if first["alloc"] else last["file"] + last["file_size"] - first["file"])
            got = (sh_["offset"], sh_["addr"], sh_["size"])
            if want != got:
                stats["header_mismatch"] += 1
                chk.tie_break(f"correspondence C04.headers: section header {sh_['name']} (offset, address, size) = {got} but its parts were laid out at {want}", rep)

    try:
        if not replay or json.load(open(replay))["replay"].get("name"):
            links, msg = libc_links(d, wild)
            if links is None:
                chk.tie_break("gcc could not compile the C-library program", msg[-500:])
            else:
                for name, kind, argv, runnable in links:
                    page = 0x10000 if "64k" in name else 0x1000
                    rc, out = sh(f"cd {d} && rm -f out trace && WILD_VERIF_LAYOUT={d}/trace timeout 120 {wild} {argv} -o out", timeout=150)
                    stats["links"] += 1
                    rep = {"name": name, "argv": argv, "seeds": []}
                    if rc:
                        chk.violation(f"a C-library program does not link ({name}): {out.strip()[-300:]}", rep)
                        continue
                    stats["libc_programs"] += 1
                    examine(d + "/out", kind, page, rep, False)
                    if runnable:
                        rc, out = sh(f"cd {d} && ./out", timeout=30)
                        if rc or out.strip() != "b 7 1":
                            chk.violation(f"the C-library program {name} does not run correctly (exit {rc}, output {out.strip()[:80]!r})", rep)
        # corpus: a SECTIONS script that puts .text inside the page the headers occupy (earlier finding)
        if not replay or json.load(open(replay))["replay"].get("name") == "script-text-inside-headers":
            open(d + "/c.s", "w").write(".text\n.globl _start\n_start: ret\n.data\n.quad 1\n")
            open(d + "/c.ld", "w").write("SECTIONS { .text 0x400123 : { *(.text .text.*) } }\n")
            rc, out = sh(f"cd {d} && as --64 c.s -o c.o && rm -f out trace && WILD_VERIF_LAYOUT={d}/trace timeout 60 {wild} c.o -T c.ld -o out", timeout=90)
            stats["links"] += 1
            if rc == 0:
                examine(d + "/out", "static", 0x1000, {"name": "script-text-inside-headers", "seeds": [], "opts": ["-T", "SECTIONS { .text 0x400123 : { *(.text .text.*) } }"]}, True)
            else:
                stats["rejected"] += 1
        # corpus: sections placed BELOW what was laid out before them (the location counter moves backwards): the LOAD
        # segments must still be disjoint, in ascending address order, and cover their sections
        if not replay or str(json.load(open(replay))["replay"].get("name", "")).startswith("backwards"):
            open(d + "/b.s", "w").write(".text\n.globl _start\n_start: lea dat(%rip),%rax\n ret\n.data\ndat: .quad 7\n.section .foo,\"aw\",@progbits\nfoo: .quad dat\n.bss\n.lcomm buf,64\n")
            open(d + "/b.ld", "w").write("SECTIONS { .text 0x600000 : { *(.text .text.*) } .rodata : { *(.rodata*) } .data 0x200000 : { *(.data .data.* .foo) } .bss : { *(.bss*) } }\n")
            sh(f"cd {d} && as --64 b.s -o b.o", timeout=60)
            for bname, bargs in (("backwards-section-start-foo", ["--section-start=.foo=0x100000"]), ("backwards-section-start-data", ["--section-start=.data=0x200000"]),
                                 ("backwards-section-start-text", ["--section-start=.text=0x100000"]), ("backwards-script", ["-T", "b.ld"]),
                                 ("backwards-two", ["--section-start=.foo=0x300000", "--section-start=.data=0x100000"])):
                rc, out = sh(f"cd {d} && rm -f out trace && WILD_VERIF_LAYOUT={d}/trace timeout 60 {wild} b.o {' '.join(bargs)} -o out", timeout=90)
                stats["links"] += 1
                if rc == 0:
                    stats["backwards"] = stats.get("backwards", 0) + 1
                    examine(d + "/out", "static", 0x1000, {"name": bname, "seeds": [], "opts": bargs}, True)
                else:
                    stats["rejected"] += 1
        # a shared library for the dynamic kinds
        open(d + "/ext.s", "w").write(".globl extfn\n.type extfn,@function\nextfn: ret\n.data\n.globl extvar\n.type extvar,@object\n.size extvar,8\nextvar: .quad 1\n")
        rc, out = sh(f"cd {d} && as --64 ext.s -o ext.o && {wild} -shared ext.o -o libext.so", timeout=60)
        if rc:
            chk.tie_break("cannot build the helper shared library", out[-400:])
        for seed in seeds:
            r = random.Random(seed)
            c = gen_case(r)
            for n, s in c["files"].items():
                open(f"{d}/{n}", "w").write(s)
            rc, out = sh(f"cd {d} && " + " && ".join(f"as --64 {n} -o {n[:-2]}.o" for n in c["files"]), timeout=60)
            if rc != 0:
                chk.tie_break("as failed on a generated object", {"seeds": [seed], "msg": out[-300:]})
                continue
            objs = ["main.o"] + [f"o{i}.o" for i in range(c["nobj"])]
            args = list(KINDS[c["kind"]]) + c["opts"]
            if c["kind"] in ("pie", "dynamic-nopie", "shared"):
                objs.append("libext.so")
            if c["script"]:
                open(d + "/s.ld", "w").write(c["script"])
                args += ["-T", "s.ld"]
                stats["scripts"] += 1
            stats["located"] += int(c["located"])
            rep = {"seeds": [seed], "kind": c["kind"], "opts": args}
            if c.get("backwards"):
                rep["name"] = "generated-backwards-script"
            rc, out = sh(f"cd {d} && rm -f out trace && WILD_VERIF_LAYOUT={d}/trace timeout 60 {wild} {' '.join(objs)} -o out {' '.join(args)}", timeout=90)
            stats["links"] += 1
            if rc != 0:
                stats["rejected"] += 1
                stats.setdefault("reject_reasons", {})
                key = re.sub(r"[0-9a-fx]{3,}", "N", out.strip().splitlines()[-1][:90] if out.strip() else "?")
                stats["reject_reasons"][key] = stats["reject_reasons"].get(key, 0) + 1
                continue
            examine(d + "/out", c["kind"], c["page"], rep, c["located"])
    finally:
        shutil.rmtree(d, ignore_errors=True)
    if expect:
        per = (len(expect) + NCPU - 1) // NCPU
        bodies = ["Eval vm_compute in [\n" + ";\n".join(items[j * per:(j + 1) * per]) + "].\n" for j in range(NCPU) if items[j * per:(j + 1) * per]]
        flat, okm = [], True
        for rc_, o in coq_eval_sharded("c04", IMPORTS, bodies, timeout=900):
            if rc_ != 0:
                chk.tie_break("model evaluation failed (coqc)", o[-1500:])
                okm = False
                continue
            flat += parse_coq_value(o)
        if okm and len(flat) != len(expect):
            chk.tie_break("model evaluation: wrong number of answers", {"items": len(expect), "answers": len(flat)})
        elif okm:
            for got, (real, rep) in zip(flat, expect):
                m = [tuple(x) for x in got]
                if m != [tuple(x) for x in real]:
                    stats["model_mismatch"] += 1
                    k = next((i for i, (x, y) in enumerate(zip(m, real)) if tuple(x) != tuple(y)), min(len(m), len(real)))
                    chk.tie_break("correspondence C04.layout: layout_section_parts did not place a part where the model's run_events does",
                                  dict(rep, first_difference_at_event=k, model=m[k:k + 3], wild=real[k:k + 3]))
    chk.cov.update({
        "evaluations": stats["accepted"], "distinct_nontrivial": stats["model_segments"],
        "rule": "1-3 generated objects with 3-11 sections each (text/rodata/data/bss/TLS data+bss/init+fini arrays/RELRO data/custom names; alignments 1..64 KiB, sizes 0..70000) linked as "
                "static, static-PIE, PIE, dynamic, shared, relocatable with random -z max-page-size / norelro / now / (no)separate-code, --gc-sections, --eh-frame-hdr, --hash-style, "
                "--build-id, --section-start, a SECTIONS script; plus C-library programs (static, static-PIE, PIE, PIE 64 KiB pages, shared), the runnable ones executed",
        "stats": stats,
    })
    return chk.finish(TRUSTED)
