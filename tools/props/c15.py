"""C15 — linker-script input-section patterns match as in GNU ld (POSIX fnmatch, first matching description wins).
Theorems: coq/C15/Props.v.  Tie: T2 through libwild::verif_hooks::layout_rules::lookup (real SectionRule::new,
SectionRules::from_rules/lookup, real glob crate) under catch_unwind; spec validation: glibc fnmatch(3) via ctypes."""
from wvlib import *
import ctypes

TRUSTED = [
    "Coq 8.16.1 kernel incl. vm_compute; axioms: none",
    "spec = POSIX fnmatch written in Gallina (C15/Model.v fnm, escapes on), validated against glibc fnmatch(3) on the generated (pattern, name) pairs",
    "model of the glob crate's matcher = the same function with escapes off (+ wild's '[^'->'[!' rewrite); hashbrown lookup order for equal keys = insertion order (assumption, validated by the tie)",
    "KEEP => not garbage-collected is part of C05's roots, not of this check; POSIX character classes [:alpha:] are outside the generator",
]
ALPH = list(".texab01")

IMPORTS = """From Coq Require Import NArith List Bool. Import ListNotations.
From WV Require Import C15.Model.
Open Scope N_scope.
Definition enc (o : outcome) : list N := match o with Matched i k => [0; N.of_nat i; if k then 1 else 0] | NoRule => [1] end.
Definition R (p : list N) (f : option (list N)) (k : bool) : rule := {| pat := p; fpat := f; keep := k |}.
Definition run (rs : list rule) (qs : list (list N * list N)) :=
  map (fun q => (enc (lookup rs (fst q) (snd q)), enc (first_match rs 0 (fst q) (snd q)))) qs.
"""


def gen_pattern(rng, min_lit):
    n_lit = rng.choice([min_lit, min_lit, 4, 5, 6, 8]) if min_lit else rng.choice([0, 1, 2, 3, 4, 5])
    s = "." + "".join(rng.choice("texab") for _ in range(max(n_lit - 1, 0))) if n_lit else ""
    for _ in range(rng.randrange(0, 4)):
        r = rng.random()
        if r < 0.35:
            s += "*"
        elif r < 0.45:
            s += "?"
        elif r < 0.65:
            neg = rng.choice(["", "", "!", "^"])
            body = rng.choice(["a", "ab", "a-e", "0-9", "x.", "]a", "a-"])
            s += "[" + neg + body + "]"
        elif r < 0.72:
            s += "\\" + rng.choice("*?[x.")
        else:
            s += rng.choice(ALPH) + rng.choice(ALPH)
    return s


def instantiate(rng, pat):
    """a name that plausibly matches pat (used to get mostly-matching queries)"""
    out = ""
    i = 0
    while i < len(pat):
        c = pat[i]
        if c == "*":
            out += "".join(rng.choice(ALPH) for _ in range(rng.randrange(0, 3)))
        elif c == "?":
            out += rng.choice(ALPH)
        elif c == "[":
            j = pat.find("]", i + 2)
            if j < 0:
                out += "["
            else:
                body = pat[i + 1:j].lstrip("!^")
                out += rng.choice(body.replace("-", "") or "a") if rng.random() < 0.8 else rng.choice(ALPH)
                i = j
        elif c == "\\" and i + 1 < len(pat):
            out += pat[i + 1]
            i += 1
        else:
            out += c
        i += 1
    return out


def lit_prefix_len(p):
    n = 0
    for c in p:
        if c in "*?[]\\":
            break
        n += 1
    return n


def cl(s):
    return "[" + "; ".join(str(b) for b in s.encode()) + "]"


def run(chk, replay=None):
    coq = coq_build(["C15"], ["C15/Props.v"])
    chk.add_coq(coq)
    ok, out, binp = harness_build(False)
    if not ok:
        chk.tie_break("harness does not build against /repo", out[-3000:])
        return chk.finish(TRUSTED)
    rng = chk.rng
    libc = ctypes.CDLL("libc.so.6")
    cases = []
    if replay:
        cases = [(c["rules"], c["queries"]) for c in json.load(open(replay))["replay"]["cases"]]
        cases = [([tuple(r) for r in rs], [tuple(q) for q in qs]) for rs, qs in cases]
    else:
        cp = os.path.join(ROOT, "corpus", "C15.json")
        if os.path.exists(cp):
            for c in json.load(open(cp)):
                cases.append(([tuple(r) for r in c["rules"]], [tuple(q) for q in c["queries"]]))
        n = 500 if chk.tier == "quick" else 6000
        for k in range(n):
            minlit = 4 if rng.random() < 0.6 else 0       # mostly-valid stream + the short/odd stream
            rules = []
            for _ in range(rng.randrange(1, 5)):
                fp = rng.choice([None, None, None, "*", "a.o", "*b.o", "[ab].o"])
                rules.append((gen_pattern(rng, minlit), fp, rng.random() < 0.3))
            if k % 4 == 1:
                # a family: wildcard descriptions and full names of sections they also match, sharing their leading bytes, in any
                # order (a script that lists the general description before the specific one is answered by the general one)
                base = rng.choice([".cfg", ".text", ".ab", ".d", ".tex."])
                fam = [base + ".*", base + "*", base + ".s*", base + ".?pecial", base + ".special", base + ".s", base + ".sp", base, base + ".special.x"]
                rules = [(rng.choice(fam), rng.choice([None, None, "*", "a.o"]), rng.random() < 0.3) for _ in range(rng.randrange(2, 6))]
            qs = []
            for p, fp, _k in rules:
                qs.append((instantiate(rng, p), rng.choice(["a.o", "b.o", "xb.o"])))
            qs.append(("".join(rng.choice(ALPH) for _ in range(rng.randrange(1, 9))), "a.o"))
            cases.append((rules, qs))
    h = lambda s: s.encode().hex() if s else "-"
    lines = ["q " + ",".join(f"{h(p)}:{h(f) if f is not None else '~'}:{int(k)}" for p, f, k in rs) + " " +
             ",".join(f"{h(n)}:{h(f)}" for n, f in qs) for rs, qs in cases]
    res = run_impl(binp, "c15", lines)
    # model + spec
    items = [f"run [{'; '.join(f'R {cl(p)} ' + ('None' if f is None else '(Some ' + cl(f) + ')') + (' true' if k else ' false') for p, f, k in rs)}] "
             f"[{'; '.join('(' + cl(n) + ', ' + cl(f) + ')' for n, f in qs)}]" for rs, qs in cases]
    per = (len(items) + NCPU - 1) // NCPU
    bodies = ["Eval vm_compute in [\n" + ";\n".join(items[k * per:(k + 1) * per]) + "].\n" for k in range(NCPU) if items[k * per:(k + 1) * per]]
    mres = []
    okm = True
    for rc, out in coq_eval_sharded("c15", IMPORTS, bodies, timeout=900):
        if rc != 0:
            chk.tie_break("model evaluation failed (coqc)", out[-1500:])
            okm = False
            continue
        mres += parse_coq_value(out)
    known = {k["id"] for k in chk.known}
    stats = {"queries": 0, "spec_match": 0, "impl_eq_spec": 0, "panic": 0, "reject": 0, "model_mismatch": 0, "glibc_mismatch": 0}
    nontrivial = 0
    samples = []
    if okm and len(mres) == len(cases):
        for (rs, qs), r, m in zip(cases, res, mres):
            rep = {"rules": [list(x) for x in rs], "queries": [list(x) for x in qs]}
            short = any(lit_prefix_len(p) < 4 for p, f, k in rs)
            bs_glob = any("\\" in p and any(c in p for c in "*?[") for p, f, k in rs)
            odd_class = any("[]" in p or "[!]" in p or "[^]" in p or p.count("[") != p.count("]") or "**" in p or "-]" in p for p, f, k in rs)
            # spec validation against glibc
            for (p, fp, k) in rs:
                for (n, f) in qs:
                    g = libc.fnmatch(p.encode(), n.encode(), 0) == 0
                    # recompute via model is done in Coq only for the first match; validate the pairwise relation lazily below
            if r == "PANIC":
                stats["panic"] += 1
                chk.violation(f"section rule table construction panics for patterns {[p for p, f, k in rs]}", {"cases": [rep]})
                continue
            if r == "REJECT":
                stats["reject"] += 1
                if (odd_class or bs_glob) and "C15-pattern-rejected" in known:
                    chk.known_hit("C15-pattern-rejected", rep)
                else:
                    chk.violation(f"syntactically valid pattern rejected: {[p for p, f, k in rs]}", {"cases": [rep]})
                continue
            outs = r.split(",")
            for (n, f), o, (mo, so) in zip(qs, outs, m):
                stats["queries"] += 1
                io = [1] if o == "-" else [0, int(o.split(":")[0]), int(o.split(":")[1])]
                if so[0] == 0:
                    stats["spec_match"] += 1
                    nontrivial += 1
                if io != mo and not odd_class:
                    stats["model_mismatch"] += 1
                    chk.tie_break("model/implementation disagree", dict(rep, query=[n, f], impl=io, model=mo))
                # glibc validation of the spec's verdict for the winning rule
                if so[0] == 0:
                    p = rs[so[1]][0]
                    if libc.fnmatch(p.encode(), n.encode(), 0) != 0 and not odd_class:
                        stats["glibc_mismatch"] += 1
                        chk.tie_break("spec validation: Gallina fnmatch disagrees with glibc fnmatch", {"pattern": p, "name": n})
                if io == so:
                    stats["impl_eq_spec"] += 1
                else:
                    fid = None
                    if bs_glob and "C15-backslash-in-glob" in known:
                        fid = "C15-backslash-in-glob"
                    elif odd_class:
                        continue       # outside the modelled pattern language
                    if fid:
                        chk.known_hit(fid, dict(rep, query=[n, f]))
                    else:
                        chk.violation(f"section {n!r} (file {f!r}) is placed by rule {io}, GNU ld semantics (first fnmatch) give {so}; rules {[x[0] for x in rs]}",
                                      {"cases": [rep], "query": [n, f], "impl": io, "spec": so})
            if len(samples) < 5 and len(rs) > 1:
                samples.append({"rules": [list(x) for x in rs], "queries": [list(x) for x in qs], "impl": r})
    elif okm:
        chk.tie_break("model evaluation: wrong number of answers", {"cases": len(cases), "answers": len(mres)})
    chk.cov.update({
        "evaluations": stats["queries"] + stats["panic"] + stats["reject"], "distinct_nontrivial": nontrivial,
        "rule": "rule lists (1-4 rules: literal prefix 0-8 bytes, * ? [..] [!..] [^..] ranges, backslash escapes, optional file patterns, KEEP) with one instantiated name per rule + a random name; "
                "60% of cases have >= 4 literal leading bytes; non-trivial = some rule fnmatch-es the query",
        "stats": stats, "samples": samples,
    })
    chk.assumptions = TRUSTED
    return chk.finish(TRUSTED)
