"""C19 — a link touches only its declared outputs.
Theorems: coq/C19/Props.v over Cfs/Model.v (every name but the output's stays bound as before, every other inode keeps
its contents, nothing is left under the parking name).  Tie T2: real runs of the hooked wild in scratch directories
seeded with look-alike siblings (<out>.delete, <stem>.delete, <out>.layout, <out>.trace, dot-files, a hard link to the old
output, the inputs); the directory snapshot (name -> inode, size, sha256, mode) before and after is compared with the
model's prediction: only the output and the user-requested side files may differ, nothing new may appear."""
from wvlib import *
import tempfile, shutil, hashlib, itertools

TRUSTED = [
    "Coq 8.16.1 kernel incl. vm_compute; axioms: none",
    "Cfs/Model.v transcription and kernel rules as for C18; the side files (--write-layout, --write-trace, --dependency-file) are declared outputs: the snapshots check that they appear only when asked for, their contents are not modelled",
    "unused_sibling_path is assumed to return a name that does not exist (it checks with symlink_metadata; the check-then-rename race with another process is not modelled)",
    "two links running concurrently in one directory are exercised by the snapshots only",
]

SRC = """.text
.globl _start
.type _start,@function
_start:
 lea d(%rip), %rax
 mov $60, %eax
 xor %edi, %edi
 syscall
.data
.globl d
.hidden d
d: .long absval
"""


def snap(d):
    out = {}
    for f in sorted(os.listdir(d)):
        p = os.path.join(d, f)
        st = os.lstat(p)
        out[f] = (st.st_ino, st.st_size, hashlib.sha256(open(p, "rb").read()).hexdigest() if os.path.isfile(p) else "", st.st_mode)
    return out


def scenario(d, wild, outname, shared, forced, threads1, prior, fail, side, hardlink):
    os.makedirs(d, exist_ok=True)
    shutil.copy(os.path.join(os.path.dirname(d), "in.o"), d + "/in.o")
    stem = outname.rsplit(".", 1)[0] if "." in outname else outname
    siblings = [outname + ".delete", stem + ".delete", outname + ".layout", outname + ".trace", "." + outname + ".delete", stem + ".d", "unrelated.txt", stem]
    for s in siblings:
        if s != outname and not os.path.exists(f"{d}/{s}"):
            open(f"{d}/{s}", "w").write("sibling " + s + "\n")
    out = f"{d}/{outname}"
    if prior:
        open(out, "wb").write(b"OLD OUTPUT " * 40)
        if hardlink:
            os.link(out, f"{d}/hardlink-to-old-output")
    before = snap(d)
    args = [wild, "in.o", "-o", outname, f"--defsym=absval={(1 << 33) if fail == 'write' else 5:#x}"]
    declared = {outname}
    if shared:
        args.append("-shared")
    if forced == 1:
        args.append("--update-in-place")
    elif forced == 2:
        args.append("--no-update-in-place")
    if threads1:
        args.append("--threads=1")
    if side == "layout":
        args.append("--write-layout")
        declared.add(outname + ".layout")
    elif side == "trace":
        args.append("--write-trace")
        declared.add(outname + ".trace")
    elif side == "dep":
        args.append(f"--dependency-file={stem}.d")
        declared.add(stem + ".d")
    env = dict(os.environ)
    env.pop("WILD_VERIF_POINT", None)
    if fail == "layout":
        env["WILD_VERIF_POINT"] = "layout:error"
    r = subprocess.run(args, cwd=d, env=env, stdout=subprocess.PIPE, stderr=subprocess.STDOUT, timeout=60)
    time.sleep(0.05)        # the old output is deleted from a background task
    after = snap(d)
    return r.returncode, before, after, declared, args[1:], r.stdout.decode(errors="replace")[-300:]


def run(chk, replay=None):
    coq = coq_build(["Cfs", "C18", "C19"], ["C19/Props.v"])
    chk.add_coq(coq)
    okw, outw, wild = wild_build()
    if not okw:
        chk.tie_break("wild does not build", outw[-2000:])
        return chk.finish(TRUSTED)
    known = {k["id"] for k in chk.known}
    top = tempfile.mkdtemp(prefix="c19")
    stats = {"runs": 0, "failed_links": 0, "touched_undeclared": 0, "strays": 0, "hardlink_runs": 0, "hardlink_changed": 0, "concurrent_pairs": 0}
    samples = []
    try:
        open(top + "/in.s", "w").write(SRC)
        rc, out = sh(f"cd {top} && as --64 in.s -o in.o", timeout=60)
        if rc != 0:
            chk.tie_break("as failed", out[-300:])
            return chk.finish(TRUSTED)
        matrix = list(itertools.product(("prog.so", "libx.so.1", "a.out", "prog"), (0, 1, 2), (False, True), (False, True),
                                        ("ok", "layout", "write"), (None, "layout", "trace", "dep"), (False, True)))
        if replay:
            matrix = [tuple(c) for c in json.load(open(replay))["replay"]["cases"]]
        else:
            chk.rng.shuffle(matrix)
            matrix = matrix[:90 if chk.tier == "quick" else len(matrix)]
        from concurrent.futures import ThreadPoolExecutor

        def work(ix_m):
            ix, (outname, forced, threads1, prior, fail, side, hardlink) = ix_m
            shared = outname.endswith(".so") or ".so." in outname
            return (ix_m[1],) + scenario(f"{top}/s{ix}", wild, outname, shared, forced, threads1, prior, fail, side, hardlink and prior)
        with ThreadPoolExecutor(max_workers=8) as ex:
            results = list(ex.map(work, list(enumerate(matrix))))
        for m, rc, before, after, declared, args, msg in results:
            stats["runs"] += 1
            stats["failed_links"] += int(rc != 0)
            rep = {"cases": [list(m)], "args": args, "exit": rc}
            for name in sorted(set(before) | set(after)):
                if name in declared:
                    continue
                b, a = before.get(name), after.get(name)
                if b == a:
                    continue
                if name == "hardlink-to-old-output":
                    stats["hardlink_changed"] += 1
                    if "C19-hardlink-updated-in-place" in known:
                        chk.known_hit("C19-hardlink-updated-in-place", dict(rep, file=name))
                    else:
                        chk.violation(f"`wild {' '.join(args)}` rewrote the bytes seen through another name of the old output (hard link)", dict(rep, file=name))
                    continue
                if b is None:
                    stats["strays"] += 1
                    chk.violation(f"`wild {' '.join(args)}` (exit {rc}) left a new file `{name}` that was not asked for", dict(rep, file=name))
                else:
                    stats["touched_undeclared"] += 1
                    chk.violation(f"`wild {' '.join(args)}` (exit {rc}) {'deleted' if a is None else 'modified'} `{name}`, which is not one of its outputs", dict(rep, file=name))
            if m[6] and m[3]:
                stats["hardlink_runs"] += 1
            if len(samples) < 4:
                samples.append({"args": args, "exit": rc, "changed": sorted(n for n in set(before) | set(after) if before.get(n) != after.get(n))})
        # two links at once in one directory, outputs sharing a stem
        for k in range(4 if chk.tier == "quick" else 20):
            d = f"{top}/c{k}"
            os.makedirs(d)
            shutil.copy(top + "/in.o", d + "/in.o")
            for f in ("prog.so", "prog.exe", "prog.delete", "prog"):
                open(f"{d}/{f}", "w").write("old " + f)
            before = snap(d)
            ps = [subprocess.Popen([wild, "in.o", "-o", o, "--defsym=absval=5"] + (["-shared"] if o.endswith(".so") else ["--no-update-in-place"]),
                                   cwd=d, stdout=subprocess.DEVNULL, stderr=subprocess.DEVNULL) for o in ("prog.so", "prog.exe")]
            rcs = [p.wait(timeout=60) for p in ps]
            time.sleep(0.05)
            after = snap(d)
            stats["concurrent_pairs"] += 1
            for name in sorted(set(before) | set(after)):
                if name in ("prog.so", "prog.exe"):
                    continue
                if before.get(name) != after.get(name):
                    chk.violation(f"two concurrent links (-o prog.so, -o prog.exe) in one directory changed `{name}`", {"cases": [], "file": name, "exits": rcs})
    finally:
        shutil.rmtree(top, ignore_errors=True)
    # the model on the four shapes of run (ties the prediction "nothing but Out changes" to these runs)
    rc_, out = coq_eval("c19", """Eval vm_compute in
  map (fun c => let s0 := {| names := fun p => match p with Out => Some 7 | Other 1 => Some 8 | Side 1 => Some 9 | _ => None end; data := fun _ => Old 1; next_ino := 100 |} in
                let s1 := fst (link c s0) in
                [match names s1 (Other 1) with Some 8 => 1 | _ => 0 end; match names s1 (Side 1) with Some 9 => 1 | _ => 0 end;
                 match names s1 (Other 0) with None => 1 | _ => 0 end; match data s1 8 with Old 1 => 1 | _ => 0 end])
      [cfg_of true None true false Success false; cfg_of false None true false InWrite false; cfg_of false (Some UnlinkAndReplace) false false AfterSetSize false;
       cfg_of false (Some UpdateInPlace) true false Success false].
""", "From Coq Require Import NArith List Bool. Import ListNotations.\nFrom WV Require Import Cfs.Model C18.Proofs.\nOpen Scope N_scope.\n")
    if rc_ != 0 or parse_coq_value(out) != [[1, 1, 1, 1]] * 4:
        chk.tie_break("model evaluation: the executable model changes a name or inode other than the output's", out[-800:])
    chk.cov.update({
        "evaluations": stats["runs"] + stats["concurrent_pairs"], "distinct_nontrivial": stats["failed_links"],
        "rule": "output names {prog.so, libx.so.1, a.out, prog} x write mode x threads x prior output x {success, error after set_size, error in the write phase} x side file "
                "{none, --write-layout, --write-trace, --dependency-file} x hard link to the old output; 8 look-alike siblings per directory; plus concurrent pairs sharing a stem; "
                "non-trivial = failing links",
        "stats": stats, "samples": samples,
    })
    return chk.finish(TRUSTED)
