"""C06 — output bytes are deterministic.
Theorems: coq/C06/Props.v (results stored by index, collections sorted by an identifying key, per-group results
consumed in group order, every byte of the buffer written or zero-filled => the output does not depend on completion
order or on the previous contents of the file; the build ID is a function of the bytes).
Tie T2 against the real binary — the property predicate itself: a corpus of C objects (debug info, mergeable strings,
function sections, weak symbols, TLS) and generated assembly programs are linked as static, PIE, shared and
relocatable outputs, each under many configurations: --threads 1..16, WILD_FILES_PER_GROUP, --wild-experiments
(string-merge grouping), scheduler perturbation seeds (hook WILD_VERIF_SCHED_SEED), fork/--no-fork, and over prior
output states (absent, shorter, longer, same-size random bytes, a running executable) with and without
--update-in-place; all outputs of a case must be byte-identical (and so their --build-id=fast).
Tie T3 for mechanism (4): the layout trace (hook WILD_VERIF_LAYOUT) gives the regions of the file; the model's
write_regions over a 0xA5-filled prior must equal the file wild produced over that prior."""
from wvlib import *
import tempfile, shutil, hashlib
import elfread
from props import c04

TRUSTED = [
    "Coq 8.16.1 kernel incl. vm_compute; axioms: none",
    "the four mechanisms are modelled separately; that wild uses one of them at every place where parallel work meets shared state is established only by the differential runs",
    "schedules are explored by thread counts, groupings and the perturbation hook (random yields/spins at task starts); not exhaustively",
    "the layout trace hook reports the file regions of allocated and non-allocated parts; header tables are taken as data regions",
]

CSRC = {
    "h.c": '#include <stdio.h>\n#include <string.h>\n__thread int tl = 5; static char big[7000] __attribute__((aligned(64)));\nconst char *names[] = {"alpha", "beta", "gamma", "alpha"};\n'
           'int main(int argc, char **argv) { big[1] = 1; printf("%s %d %zu\\n", names[argc % 4], tl + big[1], strlen(names[1])); return 0; }\n',
    "a.c": '#include <stdio.h>\nextern int bfn(int); extern const char *bs(void);\n__attribute__((weak)) int weakfn(void) { return 1; }\nint afn(int x) { return bfn(x) + weakfn(); }\n'
           'const char *as_(void) { return "shared-string-one"; }\n',
    "b.c": '#include <stdlib.h>\nint bfn(int x) { return abs(x) * 3; }\nconst char *bs(void) { return "shared-string-one"; }\nconst char *bs2(void) { return "two"; }\n'
           '__attribute__((weak)) int weakfn(void) { return 2; }\n',
}
for _i in range(1, 13):
    CSRC[f"g{_i}.c"] = (f'int gen{_i}(int x){{return x+{_i};}}\nconst char* str{_i}(void){{return "str-common";}}\nconst char* own{_i}(void){{return "own-{_i}";}}\n'
                        f'__thread int tv{_i} = {_i};\nint *tp{_i}(void){{return &tv{_i};}}\n')


def sha(path):
    return hashlib.sha256(open(path, "rb").read()).hexdigest()


def configs(rng, n, seed):
    out = [{"threads": 1, "fpg": None, "sched": None, "exp": None, "nofork": False}]
    for _ in range(n):
        out.append({"threads": rng.choice([1, 2, 3, 5, 8, 16]), "fpg": rng.choice([None, None, 1, 2, 3, 7]), "sched": rng.choice([None, seed % 997 + 1, seed % 89 + 3]),
                    "exp": rng.choice([None, None, "1,64", "8,256", "3,1024"]), "nofork": rng.random() < 0.2})
    return out


def link(wild, d, argv, out, cfg, extra_env=None):
    env = dict(os.environ)
    if cfg["fpg"]:
        env["WILD_FILES_PER_GROUP"] = str(cfg["fpg"])
    if cfg["sched"]:
        env["WILD_VERIF_SCHED_SEED"] = str(cfg["sched"])
    env.update(extra_env or {})
    cmd = [wild] + argv + ["-o", out, f"--threads={cfg['threads']}"] + ([f"--wild-experiments={cfg['exp']}"] if cfg["exp"] else []) + (["--no-fork"] if cfg["nofork"] else [])
    p = subprocess.run(cmd, cwd=d, env=env, stdout=subprocess.PIPE, stderr=subprocess.STDOUT, text=True, timeout=180)
    return p.returncode, p.stdout


def run(chk, replay=None):
    coq = coq_build(["C06"], ["C06/Props.v"])
    chk.add_coq(coq)
    okw, outw, wild = wild_build()
    if not okw:
        chk.tie_break("wild does not build", outw[-2000:])
        return chk.finish(TRUSTED)
    rng = chk.rng
    stats = {"cases": 0, "links": 0, "configs_per_case": 0, "prior_states": 0, "kinds": {}, "mismatches": 0, "regions_checked": 0, "pad_bytes_checked": 0, "busy_runs": 0}
    nconf = 10 if chk.tier == "quick" else 60
    d = tempfile.mkdtemp(prefix="c06")
    items, expect = [], []
    try:
        for n, s in CSRC.items():
            open(f"{d}/{n}", "w").write(s)
        rc, out = sh(f"cd {d} && " + " && ".join(f"gcc -O1 -g -fPIC -ffunction-sections -c {n} -o {n[:-2]}.o" for n in CSRC), timeout=300)
        if rc:
            chk.tie_break("gcc could not compile the corpus", out[-500:])
            return chk.finish(TRUSTED)
        # a non-PIC executable that reads data of a shared object directly: copy relocations
        open(f"{d}/dv.c", "w").write("".join(f"int dv{i} = {i + 1}; long dl{i} = {i};\n" for i in range(8)))
        open(f"{d}/np.c", "w").write("#include <stdio.h>\n" + "".join(f"extern int dv{i}; extern long dl{i};\n" for i in range(8)) +
                                    "int main(void) { fprintf(stderr, \"\"); printf(\"%ld\\n\", " + " + ".join(f"dv{i} + dl{i}" for i in range(8)) + "); return 0; }\n")
        rc, out = sh(f"cd {d} && gcc -O1 -fPIC -c dv.c -o dv.o && gcc -O1 -fno-pic -fno-pie -c np.c -o np.o && {wild} -shared dv.o -o libdv.so", timeout=120)
        if rc:
            chk.tie_break("cannot build the copy-relocation corpus", out[-400:])
        gccdir = sh("dirname $(gcc -print-libgcc-file-name)")[1].strip()
        lib = "/usr/lib/x86_64-linux-gnu"
        objs = [f"{n[:-2]}.o" for n in CSRC if n != "h.c"]
        cases = [
            ("c-shared", objs + ["-shared", "--build-id=fast", "--gc-sections"]),
            ("c-shared-gnuhash", objs + ["-shared", "--hash-style=gnu", "-z", "now"]),
            ("c-pie", ["-pie", "-dynamic-linker", "/lib64/ld-linux-x86-64.so.2", f"{lib}/Scrt1.o", f"{lib}/crti.o", f"{gccdir}/crtbeginS.o", "h.o"] + objs +
             [f"{lib}/libc.so.6", f"{gccdir}/libgcc.a", f"{gccdir}/crtendS.o", f"{lib}/crtn.o", "--build-id=fast"]),
            ("c-static", ["-static", f"{lib}/crt1.o", f"{lib}/crti.o", f"{gccdir}/crtbeginT.o", "h.o"] + objs +
             ["--start-group", f"{lib}/libc.a", f"{gccdir}/libgcc.a", f"{gccdir}/libgcc_eh.a", "--end-group", f"{gccdir}/crtend.o", f"{lib}/crtn.o", "--build-id=fast"]),
            ("c-relocatable", objs + ["-r"]),
            ("c-nopie-copyrel", ["-dynamic-linker", "/lib64/ld-linux-x86-64.so.2", f"{lib}/crt1.o", f"{lib}/crti.o", f"{gccdir}/crtbegin.o", "np.o", "libdv.so",
                                 f"{lib}/libc.so.6", f"{gccdir}/libgcc.a", f"{gccdir}/crtend.o", f"{lib}/crtn.o", "--build-id=fast"]),
        ]
        # input sections of a megabyte and more (their bytes are copied by several threads at once); lengths that no thread count
        # divides, contents that are not zero up to the last byte
        open(f"{d}/big.s", "w").write('.section .rodata.big,"a",@progbits\n.globl big\nbig:\n .fill 1000003, 1, 0x5a\n .byte 0x21\n'
                                     '.section .data.big2,"aw",@progbits\n.globl big2\nbig2:\n .fill 2097169, 1, 0xa5\n .byte 0x42\n'
                                     '.text\n.globl _start\n_start: lea big(%rip), %rax\n lea big2(%rip), %rcx\n ret\n')
        sh(f"cd {d} && as --64 big.s -o big.o", timeout=120)
        cases.append(("big-sections", ["big.o", "--build-id=fast"]))
        if chk.tier == "quick":
            cases = [cases[0], cases[2], cases[3], cases[4], cases[5], cases[6]]
        # generated assembly programs (the C04 generator), with mergeable strings added
        gens = []
        for gi in range(4 if chk.tier == "quick" else 30):
            seed = rng.randrange(1 << 30)
            gens.append(seed)
        if replay:
            rr = json.load(open(replay))["replay"]
            cases = [c for c in cases if c[0] == rr.get("case")]
            gens = rr.get("seeds", []) if not cases else []
        for seed in gens:
            r = random.Random(seed)
            c = c04.gen_case(r)
            if c["script"] or c["located"]:
                continue
            sub = f"{d}/g{seed}"
            os.makedirs(sub)
            for n, s in c["files"].items():
                if n != "main.s":
                    s += '.section .rodata.str1.1,"aMS",@progbits,1\n' + "".join(f' .string "{w}"\n' for w in r.sample(["common", "alpha", "beta", "a-rather-longer-string", "x", "tail", "il"], 4))
                open(f"{sub}/{n}", "w").write(s)
            rc, out = sh(f"cd {sub} && " + " && ".join(f"as --64 {n} -o {n[:-2]}.o" for n in c["files"]), timeout=60)
            if rc:
                continue
            argv = [f"g{seed}/main.o"] + [f"g{seed}/o{i}.o" for i in range(c["nobj"])] + list(c04.KINDS[c["kind"]]) + [o for o in c["opts"]]
            if c["kind"] in ("pie", "dynamic-nopie", "shared"):
                if not os.path.exists(f"{d}/libext.so"):
                    open(d + "/ext.s", "w").write(".globl extfn\n.type extfn,@function\nextfn: ret\n.data\n.globl extvar\n.type extvar,@object\n.size extvar,8\nextvar: .quad 1\n")
                    sh(f"cd {d} && as --64 ext.s -o ext.o && {wild} -shared ext.o -o libext.so", timeout=60)
                argv.append("libext.so")
            cases.append((f"gen-{seed}-{c['kind']}", argv))
        for name, argv in cases:
            rep = {"case": name, "seeds": [int(name.split("-")[1])] if name.startswith("gen-") else [], "argv": argv}
            seed = rng.randrange(1 << 30)
            cfgs = configs(random.Random(seed), nconf, seed)
            rc, out = link(wild, d, argv, f"{d}/ref", cfgs[0])
            stats["links"] += 1
            if rc:
                if name.startswith("c-"):
                    chk.tie_break(f"the corpus case {name} does not link", out[-400:])
                continue
            stats["cases"] += 1
            kind = name.split("-")[-1] if name.startswith("gen-") else name[2:]
            stats["kinds"][kind] = stats["kinds"].get(kind, 0) + 1
            ref = sha(f"{d}/ref")
            refsize = os.path.getsize(f"{d}/ref")

            def one(i_cfg):
                i, cfg = i_cfg
                o = f"{d}/out.{i}"
                rc, out = link(wild, d, argv, o, cfg)
                h = sha(o) if rc == 0 and os.path.exists(o) else None
                return cfg, rc, h, out
            with ThreadPoolExecutor(max_workers=4) as ex:
                results = list(ex.map(one, list(enumerate(cfgs[1:]))))
            stats["configs_per_case"] = len(cfgs)
            for cfg, rc, h, out in results:
                stats["links"] += 1
                if rc != 0:
                    chk.violation(f"{name}: the link succeeds with --threads=1 and fails under {cfg}: {out.strip()[-200:]}", dict(rep, config=cfg))
                elif h != ref:
                    stats["mismatches"] += 1
                    chk.violation(f"{name}: output bytes differ between the reference run (--threads=1) and {cfg}", dict(rep, config=cfg, reference_sha256=ref, sha256=h))
            for i in range(len(cfgs)):
                try:
                    os.remove(f"{d}/out.{i}")
                except OSError:
                    pass
            # prior states of the output path
            priors = [("longer-random", os.urandom(refsize + 12345)), ("shorter-random", os.urandom(max(1, refsize // 3))), ("same-size-random", os.urandom(refsize)),
                      ("same-size-0xff", b"\xff" * refsize), ("previous-output-of-other-link", None)]
            for pname, data in priors:
                for inplace in (True, False):
                    o = f"{d}/prior.out"
                    try:
                        os.remove(o)
                    except OSError:
                        pass
                    if data is None:
                        shutil.copy(f"{d}/libext.so" if os.path.exists(f"{d}/libext.so") else wild, o)
                    else:
                        open(o, "wb").write(data)
                    os.chmod(o, 0o755)
                    cfg = dict(rng.choice(cfgs))
                    rc, out = link(wild, d, argv + (["--update-in-place"] if inplace else []), o, cfg)
                    stats["links"] += 1
                    stats["prior_states"] += 1
                    if rc != 0:
                        chk.violation(f"{name}: linking over an existing file ({pname}{', --update-in-place' if inplace else ''}) fails: {out.strip()[-200:]}", dict(rep, prior=pname, inplace=inplace, config=cfg))
                    elif sha(o) != ref:
                        stats["mismatches"] += 1
                        chk.violation(f"{name}: output bytes depend on what the output path held before ({pname}{', --update-in-place' if inplace else ''})", dict(rep, prior=pname, inplace=inplace, config=cfg))
            # a running executable at the output path
            o = f"{d}/busy.out"
            shutil.copy("/bin/sleep", o)
            pr = subprocess.Popen([o, "30"])
            try:
                for inplace in (True, False):
                    cfg = dict(rng.choice(cfgs))
                    rc, out = link(wild, d, argv + (["--update-in-place"] if inplace else []), o, cfg)
                    stats["links"] += 1
                    stats["busy_runs"] += 1
                    if rc != 0 and inplace and "Text file busy" in out:
                        stats["busy_inplace_rejected"] = stats.get("busy_inplace_rejected", 0) + 1      # an explicit --update-in-place cannot write a running image: rejected, no output
                    elif rc != 0:
                        chk.violation(f"{name}: linking over a running executable{' with --update-in-place' if inplace else ''} fails: {out.strip()[-200:]}", dict(rep, prior="busy", inplace=inplace))
                    elif sha(o) != ref:
                        stats["mismatches"] += 1
                        chk.violation(f"{name}: output bytes differ when the output path was a running executable", dict(rep, prior="busy", inplace=inplace))
            finally:
                pr.kill()
                pr.wait()
            # mechanism (4) against the model, small outputs only
            if refsize <= 40000 and not argv[-1] == "-r" and "-r" not in argv:
                o = f"{d}/fill.out"
                open(o, "wb").write(b"\xa5" * refsize)
                os.chmod(o, 0o755)
                rc, out = link(wild, d, argv + ["--update-in-place"], o, cfgs[0], {"WILD_VERIF_LAYOUT": f"{d}/trace"})
                if rc == 0 and os.path.exists(f"{d}/trace"):
                    tr = c04.parse_trace(f"{d}/trace")
                    got = open(o, "rb").read()
                    regs = []
                    for sc in tr["sections"]:
                        for x in sc["parts"]:
                            if x["file_size"]:
                                regs.append((x["file"], x["file"] + x["file_size"]))
                    regs.sort()
                    pos = 0
                    rs = []
                    okr = True
                    for a, b in regs:
                        if a < pos:
                            okr = False
                            break
                        if a > pos:
                            rs.append(f"Pad {a - pos}")
                            stats["pad_bytes_checked"] += a - pos
                        rs.append("Data [" + "; ".join(str(x) for x in got[a:b]) + "]")
                        pos = b
                    if pos < len(got):
                        rs.append("Data [" + "; ".join(str(x) for x in got[pos:]) + "]")
                    if okr:
                        stats["regions_checked"] += len(rs)
                        items.append(f"same (write_regions [{'; '.join(rs)}] (repeat 165 {len(got)})) [{'; '.join(str(x) for x in got)}]")
                        expect.append(dict(rep, check="write_regions over a 0xa5-filled file"))
                    else:
                        chk.tie_break("the layout trace has overlapping file regions", rep)
    finally:
        shutil.rmtree(d, ignore_errors=True)
    if items:
        per = (len(items) + NCPU - 1) // NCPU
        bodies = ["Eval vm_compute in [\n" + ";\n".join(items[j * per:(j + 1) * per]) + "].\n" for j in range(NCPU) if items[j * per:(j + 1) * per]]
        flat, okm = [], True
        imports = ("From Coq Require Import ZArith List Bool. Import ListNotations.\nFrom WV Require Import C06.Model.\nOpen Scope Z_scope.\n"
                   "Fixpoint same (a b : list Z) : bool := match a, b with [], [] => true | x :: r, y :: s => Z.eqb x y && same r s | _, _ => false end.\n")
        for rc_, o in coq_eval_sharded("c06", imports, bodies, timeout=900):
            if rc_ != 0:
                chk.tie_break("model evaluation failed (coqc)", o[-1500:])
                okm = False
                continue
            flat += parse_coq_value(o)
        if okm:
            for v, rep in zip(flat, expect):
                if not v:
                    chk.violation(f"{rep['case']}: linking with --update-in-place over a file filled with 0xa5 leaves bytes that the layout does not write (the model's write_regions zero-fills them)", rep)
    chk.cov.update({
        "evaluations": stats["links"], "distinct_nontrivial": stats["cases"],
        "rule": f"per case: reference --threads=1, then {nconf} random configurations over threads {{1,2,3,5,8,16}} x WILD_FILES_PER_GROUP {{-,1,2,3,7}} x scheduler seeds x --wild-experiments x --no-fork; "
                "10 prior-state runs (longer/shorter/same-size random, 0xff, another output; with and without --update-in-place) and 2 runs over a running executable; small outputs are also "
                "re-derived by the model's write_regions from the layout trace over a 0xa5-filled prior",
        "stats": stats,
    })
    return chk.finish(TRUSTED)
