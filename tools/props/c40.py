"""C40 — parallel string merging hands every input to every bucket in order and finishes.
Theorems: coq/C40/Props.v.  Tie (T3): event logs (verif_hooks build) of real links with string sections split into many
input groups (--wild-experiments min-group-bytes), 1..16 threads, perturbation seeds, replayed through Model.step by
vm_compute with observed values compared (coq/C40/Replay.v)."""
from wvlib import *
import strgen, tempfile

TRUSTED = [
    "Coq 8.16.1 kernel incl. vm_compute; axioms: none",
    "model C40/Model.v: executable transition function, one event per atomic instruction / slot critical section of string_merging.rs; sequentially consistent interleavings",
    "tie: event log written while the slot mutex is held (deliver/take) or with the log mutex held across the operation (load, compare_exchange, fetch_add, queue pop); "
    "errors (unterminated strings) are outside the model",
    "progress ('never blocks while groups remain') is proved only partially: see level text",
]
IMPORTS = """From Coq Require Import List Bool Arith. Import ListNotations.
From WV Require Import C40.Model C40.Replay.
"""
B = 16


def to_events(lines):
    """one add_input_sections phase -> (G, cap, [(event term, o1, o2)], end)"""
    evs = []
    G = cap = None
    end = None
    for k, a, b in lines:
        if k == 27:
            G, cap = a, b
        elif k == 28:
            end = (a, b)
        elif k == 20:
            evs.append(("ESpLoad" if a == 0 else f"(EBLoad {a - 1})", b, 0))
        elif k == 21:
            evs.append(("ESpCas" if a == 0 else f"(EBCas {a - 1})", b >> 1, b & 1))
        elif k == 22:
            if a > 0:
                evs.append(("EPop", a, 0))     # logged with the log mutex held across the pop: pops appear in queue order
            # a == 0: the queue was empty; the model's step is the unreserve that follows (23)
        elif k == 23:
            evs.append(("EPop", 0, 0))
        elif k == 24:
            evs.append((f"(EDeliver {a})", b >> 1, b & 1))
        elif k == 25:
            evs.append((f"(ETake {a})", b >> 1, b & 1))
        elif k == 26:
            evs.append((f"(EReturn {a - 1})", 0, 0))
        elif k == 29 and G is not None:
            # a slot swap done through swap_strings_slot with a non-Strings value: (group a, bucket, new kind, old kind)
            bkt, newk, oldk = b >> 4, (b >> 2) & 3, b & 3
            if newk == 0 and oldk == 2:
                evs.append((f"(ETake {bkt})", a, 1))          # strings taken
            elif newk == 1:
                evs.append((f"(ETake {bkt})", a, 0))          # bucket parks: the model requires that no strings were there
                if oldk == 2:
                    evs[-1] = (f"(ETake {bkt})", a, 0)
            # newk == 0 and oldk != 2: a probe that changes nothing: no model event
    out = evs
    return G, cap, out, end


def phases(ev):
    cur = []
    for line in ev.splitlines():
        ph, k, a, b = line.split()
        if ph != "sm":
            continue
        k, a, b = int(k), int(a), int(b)
        if k == 255:
            if cur:
                yield cur
            cur = []
        else:
            cur.append((k, a, b))


def run(chk, replay=None):
    coq = coq_build(["C40"], ["C40/Props.v", "C40/Replay.v"])
    chk.add_coq(coq)
    okw, outw, wild = wild_build()
    if not okw:
        chk.tie_break("wild does not build", outw[-2000:])
        return chk.finish(TRUSTED)
    rng = chk.rng
    d = tempfile.mkdtemp(prefix="wv-c40-")
    traces = []
    stats = {"links": 0, "phases": 0, "events": 0, "max_groups": 0, "cas_failed": 0, "takes_parking": 0, "delivers_waking": 0}
    try:
        nprog = 3 if chk.tier == "quick" else 12
        for pi in range(nprog):
            files = strgen.make(rng, rng.choice([1, 3, 6]), rng.choice([40, 150, 400]) if chk.tier == "thorough" else rng.choice([30, 60, 120]))
            pd = f"{d}/p{pi}"
            os.makedirs(pd)
            objs = []
            for name, text in files.items():
                open(f"{pd}/{name}", "w").write(text)
                sh(f"as -o {pd}/{name[:-2]}.o {pd}/{name}", check=True)
                objs.append(f"{pd}/{name[:-2]}.o")
            ref = None
            combos = [(t, par, gb, s) for t in (1, 2, 4, 16) for par in (1, 2) for gb in (256, 1024) for s in ((None, 1) if chk.tier == "quick" else (None, 1, 2, 3, 4))]
            if chk.tier == "quick":
                combos = rng.sample(combos, 10)
            else:
                rng.shuffle(combos)
            budget = 100000         # events of this program replayed through the Coq model (every link is still compared and executed)
            for threads, par, gb, seed in combos:
                log = f"{pd}/ev.log"
                if os.path.exists(log):
                    os.remove(log)
                env = dict(os.environ, WILD_VERIF_LOG=log)
                if seed is not None:
                    env["WILD_VERIF_SCHED_SEED"] = str(seed)
                out = f"{pd}/out"
                rep = {"seed": chk.seed, "program_index": pi, "threads": threads, "split_parallelism": par, "min_group_bytes": gb, "sched_seed": seed}
                try:
                    p = subprocess.run([wild, "--no-fork", f"--threads={threads}", f"--wild-experiments={par},{gb}", "--no-gc-sections", "-o", out] + objs,
                                       env=env, stdout=subprocess.PIPE, stderr=subprocess.PIPE, timeout=120, text=True)
                except subprocess.TimeoutExpired:
                    chk.violation("string merging does not terminate (120 s)", rep)
                    continue
                stats["links"] += 1
                if p.returncode != 0:
                    chk.violation(f"link fails (rc={p.returncode}): {p.stderr[-300:]}", rep)
                    continue
                data = open(out, "rb").read()
                if ref is None:
                    ref = data
                elif data != ref:
                    chk.violation("output bytes depend on threads / group size / schedule (string merge order)", rep)
                r = subprocess.run([out], timeout=20)
                if r.returncode != 0:
                    chk.violation("a referenced string is not intact in the merged output (self-check program exits 1)", rep)
                for ph in phases(open(log).read() if os.path.exists(log) else ""):
                    G, cap, evs, end = to_events(ph)
                    if G is None or end is None:
                        chk.tie_break("incomplete string-merge event log", rep)
                        continue
                    stats["phases"] += 1
                    stats["events"] += len(evs)
                    stats["max_groups"] = max(stats["max_groups"], G)
                    stats["cas_failed"] += sum(1 for e in evs if "Cas" in e[0] and e[2] == 0)
                    stats["takes_parking"] += sum(1 for e in evs if e[0].startswith("(ETake") and e[2] == 0)
                    stats["delivers_waking"] += sum(1 for e in evs if e[0].startswith("(EDeliver") and e[2] == 1)
                    if chk.tier == "quick" and len(evs) > 5000:
                        stats["skipped_long"] = stats.get("skipped_long", 0) + 1
                        continue
                    if chk.tier != "quick" and (budget < len(evs) or len(evs) > 12000):      # replay cost grows faster than the trace (the model state is a chain of function updates)
                        stats["not_replayed_over_budget"] = stats.get("not_replayed_over_budget", 0) + 1
                        continue
                    budget -= len(evs)
                    traces.append((rep, G, cap, evs, end))
    finally:
        shutil.rmtree(d, ignore_errors=True)
    items = [f"validate {G} {B} {cap} [{'; '.join(f'({e}, {o1}, {o2})' for e, o1, o2 in evs)}]" for rep, G, cap, evs, end in traces]
    per = (len(items) + NCPU - 1) // NCPU
    bodies = ["Eval vm_compute in [\n" + ";\n".join(items[k * per:(k + 1) * per]) + "].\n" for k in range(NCPU) if items[k * per:(k + 1) * per]]
    verdicts = []
    for rc, out in coq_eval_sharded("c40", IMPORTS, bodies, timeout=1200):
        if rc != 0:
            chk.tie_break("model evaluation failed (coqc)", out[-1500:])
        else:
            verdicts += parse_coq_value(out)
    bad = 0
    if len(verdicts) == len(traces):
        for (rep, G, cap, evs, end), v in zip(traces, verdicts):
            if v[0] == 1:
                bad += 1
                i = v[1]
                chk.violation(f"recorded history leaves the proved protocol at event {i}: {evs[i]} is not an enabled step with these observed values "
                              f"(e.g. a bucket parks over strings that were delivered, strings taken out of group order, a reservation not matching `available`)",
                              dict(rep, groups=G, capacity=cap, event_index=i, event=list(evs[i]), prefix=[list(e) for e in evs[max(0, i - 15):i + 1]]))
            elif v[0] == 2:
                bad += 1
                chk.violation("string merging ended in a state that is not the finished state of the model (a bucket not done, a group not delivered, pool not restored)",
                              dict(rep, groups=G, capacity=cap, end=list(end)))
    chk.cov.update({
        "evaluations": stats["links"], "distinct_nontrivial": sum(1 for t in traces if t[1] > 1),
        "traces_validated_against_impl": len(traces), "states": stats["events"] + len(traces), "transitions": stats["events"],
        "rule": "self-checking programs with 40..2400 strings (duplicates, suffixes, strings longer than a map block) x threads {1,2,4,16} x split parallelism {1,2} x min-group-bytes {256,1024} "
                "x perturbation seeds; add_input_sections phases replayed through Model.step with observed values compared (thorough: traces of up to 12000 events, up to 100000 events per program, in random order of the matrix); outputs compared byte for byte across the matrix and executed; "
                "non-trivial = phase with more than one input group",
        "stats": stats, "rejected_histories": bad,
        "samples": [{"groups": t[1], "capacity": t[2], "first_events": [list(e) for e in t[3][:10]]} for t in traces[:2]],
    })
    chk.assumptions = TRUSTED
    return chk.finish(TRUSTED)
