"""C20 — inputs changed during a link make the link fail.
Theorems: coq/C20/Props.v (a change that stamps a new modification time after the open is detected whatever else
happens; untouched inputs are accepted; recording the time after the mmap, or a replacement that keeps the old
time, are refuted).
Tie T2 against the real binary: a link with an object, a regular archive, a thin archive and its member, a -T linker
script, an implicit linker script (INPUT(...)) and the object it names, and a shared library is paused at each phase
boundary (hook WILD_VERIF_POINT=<phase>:pause); one input is rewritten, appended to, touched, or replaced by rename;
the link is resumed.  Also with a link that fails for another reason (undefined symbol).  The window between the open
and the mmap of an input is reached with strace (delay injected into the mmap of that path).  Expected = the model's
verdict for the same event trace; the property predicate: every change of the first four kinds => non-zero exit with
`was changed while we were running`."""
from wvlib import *
import tempfile, shutil

TRUSTED = [
    "Coq 8.16.1 kernel incl. vm_compute; axioms: none",
    "the file system stamps modifications with a clock that moves forward between the open and the change (Linux multigrain timestamps; the harness sleeps 20 ms before changing a file)",
    "the model follows one path; that every input the link reads goes through FileData::open and is listed in loaded_files is exercised for the input kinds of the generator, not proved",
    "changes after verify_inputs_unchanged (the last point at which wild looks at its inputs) are outside the tie: nothing is read from the inputs after it",
]

PHASES = ["loaded", "symbols", "resolved", "layout", "written"]
KINDS = ["rewrite", "append", "touch", "replace", "replace-keeping-mtime", "touch-into-the-past", "rewrite-with-an-older-time"]
# (the last two give the file a modification time that is OLDER than the recorded one: `touch -d`, `cp -p` of an older build over the
#  input in place; for the model they are a Touch / a Rewrite: the time becomes a different one)
COQ_KIND = {"rewrite": "Rewrite", "append": "Append", "touch": "Touch", "replace": "ReplaceFresh", "replace-keeping-mtime": "ReplaceKeepingMtime",
            "touch-into-the-past": "Touch", "rewrite-with-an-older-time": "Rewrite"}


def setup(d):
    src = {
        "main.s": ".globl _start\n_start:\n call afn\n call tfn\n call efn\n call sfn@PLT\n ret\n",
        "bad.s": ".globl _start\n_start:\n call afn\n call tfn\n call efn\n call sfn@PLT\n call nowhere\n ret\n",
        "a.s": ".globl afn\nafn: ret\n", "t.s": ".globl tfn\ntfn: ret\n", "e.s": ".globl efn\nefn: ret\n", "s.s": ".globl sfn\n.type sfn,@function\nsfn: ret\n",
    }
    for n, s in src.items():
        open(f"{d}/{n}", "w").write(s)
    cmds = [f"as --64 {n} -o {n[:-2]}.o" for n in src] + ["ar rc liba.a a.o", "ar rcT libt.a t.o", "ld -shared s.o -o libs.so"]
    rc, out = sh(f"cd {d} && " + " && ".join(cmds), timeout=120)
    open(f"{d}/imp.ld", "w").write("INPUT(e.o)\n")
    open(f"{d}/t.ld", "w").write("SECTIONS { .text : { *(.text .text.*) } }\n")
    return rc == 0, out


TARGETS = {"object": "main.o", "archive": "liba.a", "thin-archive": "libt.a", "thin-member": "t.o", "script-T": "t.ld", "implicit-script": "imp.ld", "script-named-object": "e.o", "shared-library": "libs.so"}


def modify(path, kind):
    time.sleep(0.02)
    data = open(path, "rb").read()
    st = os.stat(path)
    if kind == "rewrite":
        with open(path, "r+b") as f:
            f.truncate(0)
            f.write(data)
    elif kind == "append":
        with open(path, "ab") as f:
            f.write(b"\n" if path.endswith(".ld") else b"\0")
    elif kind == "touch":
        os.utime(path, None)
    elif kind == "touch-into-the-past":
        os.utime(path, ns=(st.st_atime_ns, st.st_mtime_ns - 3600 * 10**9))
    elif kind == "rewrite-with-an-older-time":
        with open(path, "r+b") as f:          # same length, same inode
            f.write(data)
        os.utime(path, ns=(st.st_atime_ns, st.st_mtime_ns - 7 * 10**9))
    elif kind in ("replace", "replace-keeping-mtime"):
        tmp = path + ".new"
        with open(tmp, "wb") as f:
            f.write(data)
        os.chmod(tmp, st.st_mode & 0o777)
        if kind == "replace-keeping-mtime":
            os.utime(tmp, ns=(st.st_atime_ns, st.st_mtime_ns))
        os.replace(tmp, path)


def one_run(wild, base, idx, target, kind, phase, failing):
    """copy the input set into its own directory, pause wild at `phase`, change `target`, resume"""
    d = f"{base}/r{idx}"
    shutil.copytree(f"{base}/inputs", d)
    fifo = f"{d}/pause.fifo"
    os.mkfifo(fifo)
    env = dict(os.environ, WILD_VERIF_POINT=f"{phase}:pause={fifo}")
    argv = [wild, "bad.o" if failing else "main.o", "liba.a", "libt.a", "imp.ld", "libs.so", "-T", "t.ld", "-o", "out", "--no-fork"]
    p = subprocess.Popen(argv, cwd=d, env=env, stdout=subprocess.PIPE, stderr=subprocess.STDOUT, text=True)
    reached = {}

    def opener():
        try:
            reached["fd"] = os.open(fifo, os.O_WRONLY)
        except OSError as ex:
            reached["err"] = str(ex)
    th = threading.Thread(target=opener, daemon=True)
    th.start()
    th.join(20)
    if "fd" in reached:
        if kind:
            modify(f"{d}/{'bad.o' if (failing and target == 'object') else TARGETS[target]}", kind)
        os.write(reached["fd"], b"go")
        os.close(reached["fd"])
    else:
        try:
            fd = os.open(fifo, os.O_WRONLY | os.O_NONBLOCK)
            os.close(fd)
        except OSError:
            pass
    try:
        out, _ = p.communicate(timeout=60)
    except subprocess.TimeoutExpired:
        p.kill()
        out, _ = p.communicate()
    res = {"rc": p.returncode, "out": out, "reached": "fd" in reached, "output_exists": os.path.exists(f"{d}/out")}
    shutil.rmtree(d, ignore_errors=True)
    return res


def strace_run(wild, base, idx, target, kind):
    """change `target` between wild's open of it and its mmap (mmap delayed by strace)"""
    d = f"{base}/s{idx}"
    shutil.copytree(f"{base}/inputs", d)
    path = f"{d}/{TARGETS[target]}"
    log = f"{d}/strace.log"
    open(f"{d}/imp.ld", "w").write(f"INPUT({d}/e.o)\n")
    argv = ["strace", "-f", "-o", log, "-P", path, "-e", "trace=openat,mmap,close", "-e", "inject=mmap:delay_enter=1500000", wild,
            f"{d}/main.o", f"{d}/liba.a", f"{d}/libt.a", f"{d}/imp.ld", f"{d}/libs.so", "-T", f"{d}/t.ld", "-o", "out", "--no-fork", "--threads=2"]
    p = subprocess.Popen(argv, cwd=d, stdout=subprocess.PIPE, stderr=subprocess.STDOUT, text=True)
    t0 = time.time()
    opened = False
    while time.time() - t0 < 20 and p.poll() is None:
        try:
            if "openat(" in open(log).read():
                opened = True
                break
        except OSError:
            pass
        time.sleep(0.01)
    if opened:
        time.sleep(0.1)
        modify(path, kind)
    try:
        out, _ = p.communicate(timeout=60)
    except subprocess.TimeoutExpired:
        p.kill()
        out, _ = p.communicate()
    res = {"rc": p.returncode, "out": out, "reached": opened}
    shutil.rmtree(d, ignore_errors=True)
    return res


import threading


def run(chk, replay=None):
    coq = coq_build(["C20"], ["C20/Props.v"])
    chk.add_coq(coq)
    okw, outw, wild = wild_build()
    if not okw:
        chk.tie_break("wild does not build", outw[-2000:])
        return chk.finish(TRUSTED)
    rng = chk.rng
    base = tempfile.mkdtemp(prefix="c20")
    known = {k["id"] for k in chk.known}
    stats = {"runs": 0, "by_target": {}, "by_kind": {}, "by_phase": {}, "controls": 0, "failing_links": 0, "open_window_runs": 0, "detected": 0, "model_mismatch": 0, "pause_not_reached": 0}
    try:
        os.makedirs(f"{base}/inputs")
        ok, out = setup(f"{base}/inputs")
        if not ok:
            chk.tie_break("cannot build the input set", out[-400:])
            return chk.finish(TRUSTED)
        combos = []
        for target in TARGETS:
            for kind in KINDS:
                phases = PHASES if chk.tier == "thorough" else rng.sample(PHASES, 2)
                for phase in phases:
                    combos.append((target, kind, phase, False))
            combos.append((target, rng.choice(KINDS[:4]), rng.choice(PHASES[:3]), True))
        for phase in PHASES:
            combos.append((None, None, phase, False))
        if replay:
            rr = json.load(open(replay))["replay"]
            combos = [(rr["target"], rr["kind"], rr["phase"], rr.get("failing", False))] if rr.get("phase") != "open-window" else []
        with ThreadPoolExecutor(max_workers=8) as ex:
            results = list(ex.map(lambda ic: one_run(wild, base, ic[0], *ic[1]), list(enumerate(combos))))
        items, expect = [], []
        for (target, kind, phase, failing), res in zip(combos, results):
            stats["runs"] += 1
            rep = {"target": target, "kind": kind, "phase": phase, "failing": failing, "file": TARGETS.get(target)}
            if not res["reached"]:
                stats["pause_not_reached"] += 1
                chk.tie_break(f"the pause point `{phase}` was not reached", dict(rep, output=res["out"][-300:]))
                continue
            stats["by_phase"][phase] = stats["by_phase"].get(phase, 0) + 1
            changed_msg = "was changed while we were running" in res["out"]
            if kind is None:
                stats["controls"] += 1
                if res["rc"] != 0:
                    chk.violation(f"a link whose inputs nobody touched fails (paused at {phase}): {res['out'].strip()[-200:]}", rep)
                items.append("verdict (run [WOpen; WMap; WRead; Tick; WRead; WVerify])")
                expect.append((res["rc"] == 0, rep))
                continue
            stats["by_target"][target] = stats["by_target"].get(target, 0) + 1
            stats["by_kind"][kind] = stats["by_kind"].get(kind, 0) + 1
            stats["failing_links"] += int(failing)
            stats["detected"] += int(changed_msg)
            if kind != "replace-keeping-mtime":
                if res["rc"] == 0 or not changed_msg:
                    chk.violation(f"{TARGETS[target]} ({target}) was changed ({kind}) while wild was paused at `{phase}`{' in a link that also has an undefined symbol' if failing else ''}: "
                                  f"exit {res['rc']}, {'no' if not changed_msg else ''} `was changed` error: {res['out'].strip()[-160:]!r}", rep)
                elif ("bad.o" if (failing and target == "object") else TARGETS[target]) not in res["out"]:
                    chk.violation(f"the error does not name the changed file {TARGETS[target]}: {res['out'].strip()[-160:]!r}", rep)
            else:
                if res["rc"] == 0 and "C20-replacement-keeping-mtime" in known:
                    chk.known_hit("C20-replacement-keeping-mtime", rep)
                elif res["rc"] == 0:
                    chk.violation(f"{TARGETS[target]} was replaced (by rename, the new file carrying the old modification time) while wild was paused at `{phase}` and the link succeeded", rep)
            items.append(f"verdict (run [WOpen; WMap; WRead; Env {COQ_KIND[kind]}; WRead; WVerify])")
            expect.append((not changed_msg, rep))
        # the window between open and mmap
        sw = []
        if not replay or json.load(open(replay))["replay"].get("phase") == "open-window":
            for target in (["object", "archive", "thin-member", "script-named-object"] if chk.tier == "quick" else list(TARGETS)):
                for kind in (["rewrite", "touch"] if chk.tier == "quick" else KINDS[:3]):
                    sw.append((target, kind))
            if replay:
                rr = json.load(open(replay))["replay"]
                sw = [(rr["target"], rr["kind"])]
        with ThreadPoolExecutor(max_workers=6) as ex:
            sres = list(ex.map(lambda ic: strace_run(wild, base, ic[0], *ic[1]), list(enumerate(sw))))
        for (target, kind), res in zip(sw, sres):
            rep = {"target": target, "kind": kind, "phase": "open-window", "file": TARGETS[target]}
            if not res["reached"]:
                chk.tie_break("strace did not show the open of the input (open-window scenario)", dict(rep, output=res["out"][-300:]))
                continue
            stats["open_window_runs"] += 1
            changed_msg = "was changed while we were running" in res["out"]
            if res["rc"] == 0 or not changed_msg:
                chk.violation(f"{TARGETS[target]} ({target}) was changed ({kind}) between wild's open of it and its mmap and the link did not fail with `was changed`: exit {res['rc']}, {res['out'].strip()[-160:]!r}", rep)
            items.append(f"verdict (run [WOpen; Env {COQ_KIND[kind]}; WMap; WRead; WVerify])")
            expect.append((not changed_msg, rep))
    finally:
        shutil.rmtree(base, ignore_errors=True)
    if items:
        uniq = sorted(set(items))
        rc_, o = coq_eval("c20", "Eval vm_compute in [\n" + ";\n".join(uniq) + "].\n",
                          "From Coq Require Import ZArith List Bool. Import ListNotations.\nFrom WV Require Import C20.Model.\nOpen Scope Z_scope.\n")
        mres = parse_coq_value(o) if rc_ == 0 else None
        if mres is None or len(mres) != len(uniq):
            chk.tie_break("model evaluation failed", o[-800:])
        else:
            table = dict(zip(uniq, mres))
            for it, (accepted, rep) in zip(items, expect):
                mv = table[it]           # ('Some', True) = unchanged, ('Some', False) = changed
                m_accept = bool(mv[1]) if isinstance(mv, (tuple, list)) and len(mv) == 2 else False
                if m_accept != accepted:
                    stats["model_mismatch"] += 1
                    chk.tie_break(f"correspondence C20.verdict: wild {'accepted' if accepted else 'rejected'} the inputs, the model's verdict is {'unchanged' if m_accept else 'changed'}", dict(rep, model_term=it))
    chk.cov.update({
        "evaluations": stats["runs"] + stats["open_window_runs"], "distinct_nontrivial": stats["detected"],
        "rule": "targets {object, archive, thin archive, thin member, -T script, implicit INPUT() script, the object it names, shared library} x kinds {rewrite, append, touch, replace by rename, "
                "replace keeping mtime} x pause points {loaded, symbols, resolved, layout, written} (quick: 2 of 5 per pair) + one failing-link variant per target + untouched controls + "
                "open->mmap window via strace delay injection",
        "stats": stats,
    })
    return chk.finish(TRUSTED)
