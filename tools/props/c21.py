"""C21 — relinking never alters a running program or loaded library.
Theorem: coq/C21/Props.v over Cfs/Model.v.  Tie T2 with real processes: a dynamically linked program (no libc; ld.so maps
libv.so) prints what libv.so's function and its own text return, blocks on stdin while the library / the program itself
is relinked by wild with default options (different constants baked into the code), then prints again.  The second
output must equal the first; a freshly started process must see the new constants.  The unwritable-directory case
(known finding) is replayed as uid 65534."""
from wvlib import *
import tempfile, shutil

TRUSTED = [
    "Coq 8.16.1 kernel incl. vm_compute; axioms: none",
    "Cfs/Model.v transcription and kernel rules as for C18 (a process that executes or maps an inode sees in-place modifications of it; ETXTBSY only protects execve'd files, not mmap'ed libraries)",
    "the running process is observed through constants baked into its text / the library's text (one byte each) before and after the relink, on this Linux host",
    "--update-in-place (non-default) is outside the property",
]

LIB = """.text
.globl libval
.type libval,@function
libval:
 mov $LIBVAL, %eax
 ret
"""
MAIN = """.text
.globl _start
.type _start,@function
_start:
 call report
 /* block until the harness has relinked */
 xor %eax, %eax
 xor %edi, %edi
 lea buf(%rip), %rsi
 mov $1, %edx
 syscall
 call report
 mov $60, %eax
 xor %edi, %edi
 syscall
report:
 call libval@PLT
 mov %al, buf(%rip)
 call ownval
 mov %al, buf+1(%rip)
 mov $1, %eax
 mov $1, %edi
 lea buf(%rip), %rsi
 mov $2, %edx
 syscall
 ret
/* a page away, so that it is not resident before the relink unless the kernel read ahead */
.balign 4096
.skip 8192
ownval:
 mov $OWNVAL, %eax
 ret
.bss
buf: .skip 8
"""


def run(chk, replay=None):
    coq = coq_build(["Cfs", "C18", "C19", "C21"], ["C21/Props.v"])
    chk.add_coq(coq)
    okw, outw, wild = wild_build()
    if not okw:
        chk.tie_break("wild does not build", outw[-2000:])
        return chk.finish(TRUSTED)
    known = {k["id"] for k in chk.known}
    stats = {"scenarios": 0, "view_unchanged": 0, "view_changed": 0, "new_process_sees_new": 0, "model_mismatch": 0}
    top = tempfile.mkdtemp(prefix="c21")
    os.chmod(top, 0o755)
    interp = "/lib64/ld-linux-x86-64.so.2"
    details = []

    def asm(name, src, **defs):
        open(f"{top}/{name}.s", "w").write(src)
        ds = " ".join(f"--defsym {k}={v}" for k, v in defs.items())
        rc, out = sh(f"cd {top} && as --64 {ds} {name}.s -o {name}.o", timeout=60)
        if rc != 0:
            raise RuntimeError(out)

    def link(args, cwd, as_nobody=False):
        pre = ["setpriv", "--reuid=65534", "--regid=65534", "--clear-groups"] if as_nobody else []
        r = subprocess.run(pre + [wild] + args, cwd=cwd, stdout=subprocess.PIPE, stderr=subprocess.STDOUT, timeout=120)
        return r.returncode, r.stdout.decode(errors="replace")[-400:]

    try:
        asm("lib1", LIB, LIBVAL=111)
        asm("lib2", LIB, LIBVAL=222)
        asm("main1", MAIN, OWNVAL=33)
        asm("main2", MAIN, OWNVAL=44)
        scen = []
        for relink in ("lib", "exe", "lib-symlink"):
            for threads in ([], ["--threads=1"]):
                for fail in (None, "written:error"):
                    scen.append((relink, threads, fail, False))
        if shutil.which("setpriv") and os.geteuid() == 0:
            scen.append(("lib", [], None, True))
        if chk.tier == "quick":
            scen = scen[:4] + scen[4:6] + [x for x in scen if x[0] == "lib-symlink" and not x[2]] + scen[-1:]
        for si, (relink, threads, fail, ro) in enumerate(scen):
            d = f"{top}/s{si}"
            os.makedirs(d)
            os.chmod(d, 0o755)
            for f in ("lib1.o", "lib2.o", "main1.o", "main2.o"):
                shutil.copy(f"{top}/{f}", f"{d}/{f}")
                os.chmod(f"{d}/{f}", 0o644)
            if relink == "lib-symlink":      # the -o path is a symlink to the versioned file the process has mapped
                rc, out = link(["lib1.o", "-shared", "-o", "libv.so.1.0"], d)
                os.symlink("libv.so.1.0", f"{d}/libv.so")
            else:
                rc, out = link(["lib1.o", "-shared", "-o", "libv.so"], d)
            rc2, out2 = link(["main1.o", "libv.so", "-o", "prog", "--dynamic-linker", interp], d)
            if rc or rc2:
                chk.tie_break("the scenario's initial link failed", out + out2)
                continue
            env = dict(os.environ, LD_LIBRARY_PATH=d)
            p = subprocess.Popen([f"{d}/prog"], stdin=subprocess.PIPE, stdout=subprocess.PIPE, env=env, cwd=d)
            first = p.stdout.read(2)
            ino_before = (os.stat(f"{d}/libv.so").st_ino, os.stat(f"{d}/prog").st_ino)
            if ro:
                os.chmod(f"{d}/libv.so", 0o666)
                os.chmod(d, 0o555)
            renv = dict(os.environ)
            renv.pop("WILD_VERIF_POINT", None)
            if fail:
                os.environ["WILD_VERIF_POINT"] = fail
            try:
                if relink in ("lib", "lib-symlink"):
                    rrc, rout = link(["lib2.o", "-shared", "-o", "libv.so"] + threads, d, as_nobody=ro)
                else:
                    rrc, rout = link(["main2.o", "libv.so", "-o", "prog", "--dynamic-linker", interp] + threads, d, as_nobody=ro)
            finally:
                os.environ.pop("WILD_VERIF_POINT", None)
                if ro:
                    os.chmod(d, 0o755)
            try:
                p.stdin.write(b"x")
                p.stdin.flush()
                second = p.stdout.read(2)
                prc = p.wait(timeout=10)
            except Exception as ex:       # the running process died
                second, prc = b"", "died: " + str(ex)
                p.kill()
            fresh = b""
            if rrc == 0:
                q = subprocess.run([f"{d}/prog"], input=b"x", stdout=subprocess.PIPE, env=env, cwd=d, timeout=10)
                fresh = q.stdout[:2]
            stats["scenarios"] += 1
            rep = {"cases": [[relink, threads, fail, ro]], "first": list(first), "second": list(second), "fresh": list(fresh), "relink_exit": rrc, "relink_msg": rout[-200:],
                   "process_exit": prc, "inode_before": ino_before}
            details.append({k: rep[k] for k in ("cases", "first", "second", "fresh", "relink_exit")})
            unchanged = (first == second and len(first) == 2 and prc == 0)
            model_unchanged = not ro
            if unchanged != model_unchanged:
                stats["model_mismatch"] += 1
                chk.tie_break("correspondence C21: the running process's view differs from the model's prediction", rep)
            if unchanged:
                stats["view_unchanged"] += 1
            else:
                stats["view_changed"] += 1
                if ro and "C21-unwritable-directory" in known:
                    chk.known_hit("C21-unwritable-directory", rep)
                else:
                    chk.violation(f"relinking the {relink} ({' '.join(threads) or 'default threads'}{', failing at ' + fail if fail else ''}) while it is in use changed what the running process sees: "
                                  f"{list(first)} before, {list(second)} after (process exit {prc})", rep)
            if rrc == 0 and not ro:
                exp = bytes([222 if relink != "exe" else 111, 44 if relink == "exe" else 33])
                if fresh == exp:
                    stats["new_process_sees_new"] += 1
                else:
                    chk.tie_break("a fresh process does not see the relinked output", rep)
    except RuntimeError as ex:
        chk.tie_break("scenario setup failed", str(ex)[-400:])
    finally:
        shutil.rmtree(top, ignore_errors=True)
    chk.cov.update({
        "evaluations": stats["scenarios"], "distinct_nontrivial": stats["scenarios"],
        "rule": "relink {the mapped shared library, the same through a symlink, the running executable} x {default threads, --threads=1} x {success, error after the write phase}, default write modes, plus the "
                "unwritable-directory replay as uid 65534; observation = constants in the mapped/executing text before and after, and what a fresh process sees",
        "stats": stats, "details": details,
    })
    return chk.finish(TRUSTED)
