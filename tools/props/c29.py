"""C29 — alignment arithmetic is exact.  Theorems: coq/C29/Props.v.  Tie: T2 through
libwild::verif_hooks::alignment (debug build: overflow panics; release build: wraps)."""
from wvlib import *

W = 1 << 64
TRUSTED = [
    "Coq 8.16.1 kernel incl. vm_compute (no native_compute)",
    "axioms: none (Print Assumptions: Closed under the global context)",
    "model C29/Model.v hand-written from libwild/src/alignment.rs; u64::is_power_of_two, trailing_zeros, "
    "next_multiple_of modelled by their std specification",
    "tie: wvh harness (debug+release) vs model on generated cases; hook = pub wrappers in libwild/src/verif_hooks.rs",
]

IMPORTS = """From Coq Require Import NArith List Bool. Import ListNotations.
From WV Require Import C29.Model.
Open Scope N_scope.
Definition oeqb (a b : option N) := match a, b with Some x, Some y => x =? y | None, None => true | _, _ => false end.
Definition enc (o : option N) : N := match o with Some e => e | None => 255 end.
(* op: 0 new, 1 up, 2 down, 3 modulo.  returns (debug outcome, release outcome) *)
Definition model (op e a b : N) : option N * N :=
  match op with
  | 0 => (Some (enc (new a)), enc (new a))
  | 1 => (align_up_dbg e a, align_up_rel e a)
  | 2 => (Some (align_down e a), align_down e a)
  | _ => (align_modulo_dbg e a b, align_modulo_rel e a b)
  end.
Definition bad (c : N * N * N * N * N * option N * N) : bool :=
  let '(i, op, e, a, b, d, r) := c in
  let '(md, mr) := model op e a b in negb (oeqb md d && (mr =? r)).
Definition show (c : N * N * N * N * N * option N * N) :=
  let '(i, op, e, a, b, d, r) := c in let '(md, mr) := model op e a b in (i, enc md, mr).
"""


def math_up(e, v):
    a = 1 << e
    return (v + a - 1) // a * a


def predicate(case, dbg, rel):
    """The property itself, evaluated on the implementation's outputs (independent of the model).
    Returns None if fine, else a description."""
    op, e, x, y = case
    a = 1 << e
    if op == "new":
        ok = x != 0 and (x & (x - 1)) == 0 and x <= (1 << 16)
        want = f"S {x.bit_length() - 1}" if ok else "N"
        if dbg != want or rel != want:
            return f"new({x}) gave {dbg}/{rel}, property requires {want}"
        return None
    if op == "up":
        r = math_up(e, x)
    elif op == "down":
        r = x // a * a
    else:
        u = math_up(e, y)
        r = u + ((x - u) % a)
    if r < W:  # a 64-bit answer exists: both builds must return it
        if dbg != str(r) or rel != str(r):
            return f"{op}(e={e}, {x}, {y}) gave debug={dbg} release={rel}, exact answer {r}"
    return None


def gen_cases(chk):
    rng = chk.rng
    thorough = chk.tier == "thorough"
    cases = []
    for raw in [0, 1, 2, 3, 4, 5, 6, 7, 8, 1 << 15, (1 << 16) - 1, 1 << 16, (1 << 16) + 1, 1 << 17, 3 << 15,
                1 << 31, 1 << 32, 1 << 63, W - 1, (1 << 63) + 1] + [rng.getrandbits(rng.randrange(1, 65)) for _ in range(200)] \
            + [1 << k for k in range(64)]:
        cases.append(("new", 0, raw, 0))
    exps = list(range(17))
    vals = u64_lattice(rng, exps, 40 if not thorough else 2000)
    for e in exps:
        sub = [v for v in vals if rng.random() < (0.25 if not thorough else 1.0)] + \
              [0, 1, W - 1, W - (1 << e), W - (1 << e) + 1, W - (1 << e) - 1, (1 << e), (1 << e) - 1, (1 << e) + 1]
        for v in sub:
            cases.append(("up", e, v, 0))
            cases.append(("down", e, v, 0))
        nm = 250 if not thorough else 6000
        for _ in range(nm):
            ref = rng.choice(vals)
            off = rng.choice(vals)
            cases.append(("mod", e, ref, off))
        for ref in (0, 1, (1 << e) - 1, 0x123456, W - 1):
            for off in (0, 1, 0x987456, 0x987000, 0x987001, W - (1 << e), W - (1 << e) - 1, W - 1):
                cases.append(("mod", e, ref, off))
    # the repository's own test points
    for ref, off in [(0x123456, 0x987456), (0x123456, 0x987555), (0x123456, 0x987222), (0x123456, 0x987001),
                     (0x123456, 0x987000), (0x2afce, 0x42af7e)]:
        cases.append(("mod", 12, ref, off))
    return [c for c in cases if 0 <= c[2] < W and 0 <= c[3] < W]


def case_line(c):
    op, e, x, y = c
    if op == "new":
        return f"new {x}"
    if op == "mod":
        return f"mod {e} {x} {y}"
    return f"{op} {e} {x}"


OPC = {"new": 0, "up": 1, "down": 2, "mod": 3}


def enc_out(op, s):
    if s == "PANIC":
        return None
    if op == "new":
        return 255 if s == "N" else int(s.split()[1])
    return int(s)


def run(chk, replay=None):
    coq = coq_build(["C29"], ["C29/Props.v", "C29/Witness.v"])
    chk.add_coq(coq)
    okd, outd, bind = harness_build(False)
    okr, outr, binr = harness_build(True)
    if not (okd and okr):
        chk.tie_break("harness does not build against /repo", (outd if not okd else outr)[-3000:])
        return chk.finish(TRUSTED)
    if replay:
        cases = [tuple(c) for c in json.load(open(replay))["replay"]["cases"]]
    else:
        corpus = os.path.join(ROOT, "corpus", "C29.json")
        cases = [tuple(c) for c in json.load(open(corpus))] if os.path.exists(corpus) else []
        cases += gen_cases(chk)
    cases = list(dict.fromkeys(cases))
    lines = [case_line(c) for c in cases]
    dbg = run_impl(bind, "c29", lines)
    rel = run_impl(binr, "c29", lines)
    # step 5: the property predicate on the implementation
    nontrivial = 0
    classes = {}
    for c, d, r in zip(cases, dbg, rel):
        why = predicate(c, d, r)
        if why:
            chk.violation(why, {"cases": [list(c)], "debug": d, "release": r})
        op, e, x, y = c
        a = 1 << e
        k = op + (":overflow" if d == "PANIC" else ":multiple" if (op != "new" and (x if op != "mod" else y) % a == 0) else ":plain")
        classes[k] = classes.get(k, 0) + 1
        if op == "new" or (x if op != "mod" else y) % a != 0 or d == "PANIC":
            nontrivial += 1
    # step 4: model vs implementation (vm_compute), sharded
    nsh = NCPU
    shards = [[] for _ in range(nsh)]
    for i, (c, d, r) in enumerate(zip(cases, dbg, rel)):
        op, e, x, y = c
        do = enc_out(op, d)
        ro = enc_out(op, r)
        dtxt = "None" if do is None else f"(Some {do})"
        shards[i % nsh].append(f"({i},{OPC[op]},{e},{x},{y},{dtxt},{ro})")
    bodies = []
    for s in shards:
        bodies.append("Definition cases : list (N * N * N * N * N * option N * N) := [\n" + ";\n".join(s) +
                      "].\nEval vm_compute in map show (filter bad cases).\n")
    mism = []
    for rc, out in coq_eval_sharded("c29", IMPORTS, bodies):
        if rc != 0:
            chk.tie_break("model evaluation failed (coqc)", out[-2000:])
            continue
        mism += parse_coq_value(out)
    for m in mism[:20]:
        i = m[0]
        chk.tie_break("model/implementation disagree", {"case": list(cases[i]), "debug": dbg[i], "release": rel[i],
                                                      "model_debug(255=None)": m[1], "model_release": m[2]})
    chk.cov.update({
        "evaluations": 2 * len(cases), "distinct_nontrivial": nontrivial,
        "rule": "cases = corpus + boundary lattice (17 exponents x multiples +-{0,1,2}, powers of two +-1, 2^64 edge) + seeded random; "
                "each run on debug and release harness builds; non-trivial = value not already aligned, or a `new` case, or an overflow case",
        "class_histogram": classes, "model_impl_mismatches": len(mism),
        "samples": [{"case": list(c), "debug": d, "release": r} for c, d, r in list(zip(cases, dbg, rel))[::max(1, len(cases) // 6)][:6]],
        "dead_branch_observation": "align_modulo's `adjustment > value` false-branch is unreachable (Proofs.align_modulo_second_branch_dead)",
    })
    chk.assumptions = TRUSTED
    return chk.finish(TRUSTED)
