"""C10 — unwind tables cover every retained function.
Theorems: coq/C10/Props.v (the search table is exactly the kept FDEs, sorted by start address; the lookup finds the FDE of
every pc inside a retained function).  Tie T2 end to end: generated objects with per-function sections and .cfi_
directives — functions referenced and unreferenced (garbage-collected), COMDAT groups repeated across objects,
functions without unwind info, functions placed below and above .eh_frame_hdr with --section-start, several objects
(one or several CIEs each: plain, signal-frame and personality frames) — are linked by wild with --eh-frame-hdr --gc-sections; .eh_frame and .eh_frame_hdr are parsed back.
Property predicate on the output: count = number of FDEs; strictly sorted by signed start; every entry points at an FDE
whose pc-begin is the entry's start; FDEs are exactly the retained functions that had unwind info, with their sizes.
Model vs implementation: C10.Model.table on the same abstract input gives the table's order."""
from wvlib import *
import tempfile, shutil, struct
import elfread

TRUSTED = [
    "Coq 8.16.1 kernel incl. vm_compute; axioms: none",
    "the consumer is modelled as `last table entry with start <= pc, then range check` — what libgcc's binary search computes on a sorted table; the binary search itself is not modelled",
    "which sections are retained is C05's subject; here the retained set is read from the output's symbol table; FDE encodings are the ones gas emits (pcrel sdata4)",
    "C++ programs that actually throw are not run by this check",
]

IMPORTS = """From Coq Require Import ZArith List Bool. Import ListNotations.
From WV Require Import C10.Model.
Open Scope Z_scope.
Definition F (a : Z) (sz off len id : Z) : fde := {| f_sec_addr := (if a <? 0 then None else Some a); f_sec_size := sz; f_off := off; f_len := len; f_id := id |}.
Definition run (hdr : Z) (l : list fde) := map (fun h => (h_start h, h_fde h)) (table hdr l).
"""


def gen_program(rng):
    """returns ({file: asm}, functions=[dict(name, obj, cfi, referenced, size, placement)], extra link args)"""
    nobj = rng.randrange(1, 4)
    funcs = []
    files = {}
    comdat_done = set()
    fid = 0
    for o in range(nobj):
        s = []
        for _ in range(rng.randrange(2, 6)):
            kind = rng.random()
            name = f"f{fid}"
            fid += 1
            cfi = rng.random() < 0.85
            referenced = rng.random() < 0.7
            size = rng.choice([1, 2, 7, 16, 33])
            placement = rng.choice([None, None, None, "low", "high"])
            comdat = kind < 0.15
            if comdat:
                name = f"cd{rng.randrange(2)}"
                placement = None
                if (name, o) in comdat_done:
                    continue
                comdat_done.add((name, o))
                sec = f'.section .text.{name},"axG",@progbits,{name},comdat'
                s += [sec, f".weak {name}"]
            else:
                secname = {None: f".text.{name}", "low": ".low", "high": ".high"}[placement]
                s += [f'.section {secname},"ax",@progbits', f".globl {name}"]
            s += [f".type {name},@function", f"{name}:"]
            if cfi:
                s.append(" .cfi_startproc")
                # frames of different kinds need different CIEs: one object then carries several CIEs, and a later plain
                # function's FDE refers back to the first one, across FDEs that may be dropped
                ck = rng.choice(["plain", "plain", "plain", "signal", "pers"])
                if ck == "signal":
                    s.append(" .cfi_signal_frame")
                elif ck == "pers":
                    s.append(" .cfi_personality 0x3, pers_fn")
            s += [" nop"] * (size - 1) + [" ret"]
            if cfi:
                s.append(" .cfi_endproc")
            s.append(f".size {name}, .-{name}")
            prev = [f for f in funcs if f["name"] == name]
            if prev:
                prev[0]["referenced"] = prev[0]["referenced"] or referenced
                prev[0]["copies"] += 1
            else:
                funcs.append({"name": name, "obj": o, "cfi": cfi, "referenced": referenced, "size": size, "placement": placement, "comdat": comdat, "copies": 1})
        files[f"o{o}.s"] = "\n".join(s) + "\n"
    main = ['.section .text._start,"ax",@progbits', ".globl _start", ".type _start,@function", "_start:", " .cfi_startproc"]
    for f in funcs:
        if f["referenced"]:
            main.append(f" call {f['name']}")
    main += [" ret", " .cfi_endproc", ".size _start, .-_start"]
    main += ['.section .text.pers_fn,"ax",@progbits', ".globl pers_fn", ".type pers_fn,@function", "pers_fn: ret", ".size pers_fn, .-pers_fn"]
    files["main.s"] = "\n".join(main) + "\n"
    extra = []
    if any(f["placement"] == "low" for f in funcs):
        extra.append("--section-start=.low=0x10000")
    if any(f["placement"] == "high" for f in funcs):
        extra.append("--section-start=.high=0x3000000")
    return files, funcs, extra


def parse_eh(path):
    e = elfread.Elf(path)
    hdr = e.section(".eh_frame_hdr")
    ehf = e.section(".eh_frame")
    if hdr is None or ehf is None:
        return None
    hd = e.data(hdr)
    ver, ptr_enc, cnt_enc, tab_enc = hd[0], hd[1], hd[2], hd[3]
    eh_frame_ptr, count = struct.unpack_from("<iI", hd, 4)
    entries = [struct.unpack_from("<ii", hd, 12 + 8 * i) for i in range((len(hd) - 12) // 8)]
    fd = e.data(ehf)
    fdes = {}
    cies = set()
    off = 0
    problems = []
    while off + 8 <= len(fd):
        length, cid = struct.unpack_from("<II", fd, off)
        if length == 0:
            off += 4
            continue
        if cid == 0:
            cies.add(off)
        else:
            cie_off = off + 4 - cid
            if cie_off not in cies:
                problems.append(f"FDE at {off:#x} points to no CIE ({cie_off:#x})")
            pcb, rng_ = struct.unpack_from("<iI", fd, off + 8)
            addr = ehf["addr"] + off + 8 + pcb
            fdes[ehf["addr"] + off] = (addr, rng_)
        off += 4 + length
    return {"hdr_addr": hdr["addr"], "enc": (ver, ptr_enc, cnt_enc, tab_enc), "eh_frame_ptr": hdr["addr"] + 4 + eh_frame_ptr, "eh_frame_addr": ehf["addr"],
            "count": count, "entries": entries, "fdes": fdes, "problems": problems,
            "syms": {s["name"]: (s["value"], s["size"]) for s in e.symbols(".symtab") if s["name"] and s["type"] == 2}}


def run(chk, replay=None):
    coq = coq_build(["C30", "C10"], ["C10/Props.v"])
    chk.add_coq(coq)
    okw, outw, wild = wild_build()
    if not okw:
        chk.tie_break("wild does not build", outw[-2000:])
        return chk.finish(TRUSTED)
    rng = chk.rng
    seeds = [rng.randrange(1 << 30) for _ in range(50 if chk.tier == "quick" else 500)]
    if replay:
        seeds = json.load(open(replay))["replay"]["seeds"]
    stats = {"programs": 0, "functions": 0, "retained_with_cfi": 0, "gc_d": 0, "comdat_groups": 0, "below_header": 0, "table_entries": 0, "model_mismatch": 0}
    items, expect = [], []
    d = tempfile.mkdtemp(prefix="c10")
    try:
        for seed in seeds:
            r = random.Random(seed)
            files, funcs, extra = gen_program(r)
            for n, s in files.items():
                open(f"{d}/{n}", "w").write(s)
            rc, out = sh(f"cd {d} && " + " && ".join(f"as --64 {n} -o {n[:-2]}.o" for n in files), timeout=60)
            if rc != 0:
                chk.tie_break("as failed on a generated object", {"seeds": [seed], "msg": out[-300:]})
                continue
            objs = ["main.o"] + sorted(n[:-2] + ".o" for n in files if n != "main.s")
            rep = {"seeds": [seed], "args": extra}
            rc, out = sh(f"cd {d} && rm -f out && timeout 60 {wild} {' '.join(objs)} -o out --eh-frame-hdr --gc-sections {' '.join(extra)}", timeout=90)
            if rc != 0:
                chk.violation(f"link of a program with unwind info fails (seed {seed}): {out.strip()[-250:]}", rep)
                continue
            stats["programs"] += 1
            p = parse_eh(d + "/out")
            if p is None:
                chk.violation(f"--eh-frame-hdr given but the output has no .eh_frame_hdr / .eh_frame (seed {seed})", rep)
                continue
            bad = list(p["problems"])
            if p["enc"] != (1, 0x1b, 3, 0x3b):
                bad.append(f"unexpected header encodings {p['enc']}")
            if p["eh_frame_ptr"] != p["eh_frame_addr"]:
                bad.append(f"eh_frame_ptr {p['eh_frame_ptr']:#x} is not the address of .eh_frame {p['eh_frame_addr']:#x}")
            if p["count"] != len(p["fdes"]) or p["count"] != len(p["entries"]):
                bad.append(f"fde_count {p['count']}, {len(p['entries'])} table entries, {len(p['fdes'])} FDEs in .eh_frame")
            starts = [p["hdr_addr"] + a for a, b in p["entries"]]
            if any(x >= y for x, y in zip(starts, starts[1:])):
                bad.append("table not strictly sorted by start address: " + ", ".join(f"{x:#x}" for x in starts))
            for a, b in p["entries"]:
                fde_addr = p["hdr_addr"] + b
                if fde_addr not in p["fdes"]:
                    bad.append(f"table entry for {p['hdr_addr'] + a:#x} points at {fde_addr:#x}, which is not an FDE")
                elif p["fdes"][fde_addr][0] != p["hdr_addr"] + a:
                    bad.append(f"table entry start {p['hdr_addr'] + a:#x} but its FDE begins at {p['fdes'][fde_addr][0]:#x}")
            stats["table_entries"] += len(p["entries"])
            by_addr = {v[0]: v for v in p["fdes"].values()}
            want = {}
            for f in funcs + [{"name": "_start", "cfi": True, "referenced": True, "size": None, "comdat": False, "placement": None}]:
                stats["functions"] += 1
                retained = f["name"] in p["syms"]
                if f["referenced"] and not retained:
                    bad.append(f"referenced function {f['name']} is not in the output")
                if not retained:
                    stats["gc_d"] += 1
                    continue
                addr, size = p["syms"][f["name"]]
                stats["below_header"] += int(addr < p["hdr_addr"])
                stats["comdat_groups"] += int(bool(f.get("comdat")))
                if f["cfi"]:
                    stats["retained_with_cfi"] += 1
                    want[addr] = f["name"]
                    if addr not in by_addr:
                        bad.append(f"retained function {f['name']} ({addr:#x}) had an FDE in its input and has none in the output")
                    elif by_addr[addr][1] != size:
                        bad.append(f"FDE of {f['name']} covers {by_addr[addr][1]} bytes, the function has {size}")
                elif addr in by_addr:
                    bad.append(f"function {f['name']} had no unwind info in its input but the output has an FDE at its address")
            for addr in by_addr:
                if addr not in want:
                    bad.append(f"FDE for {addr:#x}, which is not a retained function with unwind info")
            if bad:
                chk.violation(f"unwind tables wrong (seed {seed}, {' '.join(extra) or 'default layout'}): " + "; ".join(bad[:4]), dict(rep, problems=bad))
            # the model's table for the same abstract input (retained functions with unwind info, in any order: the table order does not depend on it)
            fl = []
            ids = {}
            for k, (addr, name) in enumerate(sorted(want.items(), key=lambda kv: kv[1])):
                ids[k] = addr
                size = p["syms"][name][1]
                fl.append(f"F {addr} {max(size, 1)} 0 {size} {k}")
            for k2, f in enumerate([f for f in funcs if f["name"] not in p["syms"] and f["cfi"]]):
                fl.append(f"F (-1) {f['size']} 0 {f['size']} {1000 + k2}")
            items.append(f"run {p['hdr_addr']} [{'; '.join(fl)}]")
            expect.append((seed, starts, ids))
    finally:
        shutil.rmtree(d, ignore_errors=True)
    if items:
        rc_, out = coq_eval("c10", "Eval vm_compute in [\n" + ";\n".join(items) + "].\n", IMPORTS)
        mres = parse_coq_value(out) if rc_ == 0 else None
        if mres is None or len(mres) != len(items):
            chk.tie_break("model evaluation failed", out[-800:])
        else:
            for (seed, starts, ids), m in zip(expect, mres):
                if [a for a, k in m] != starts or any(ids.get(k) != a for a, k in m):
                    stats["model_mismatch"] += 1
                    chk.tie_break("correspondence C10.table: wild's search table differs from the model's", {"seeds": [seed], "wild": starts, "model": m})
    chk.cov.update({
        "evaluations": stats["functions"], "distinct_nontrivial": stats["retained_with_cfi"],
        "rule": "1-3 objects of 2-5 functions each in their own sections (85% with .cfi directives, 70% called from _start, sizes 1..33, 15% weak COMDAT groups repeated across objects, "
                "40% placed in .low / .high sections pinned below / above .eh_frame_hdr with --section-start); --eh-frame-hdr --gc-sections; non-trivial = retained functions with unwind info",
        "stats": stats,
    })
    return chk.finish(TRUSTED)
