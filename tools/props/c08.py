"""C08 — dynamic symbol hash tables find every exported symbol.
Theorems: coq/C08/Props.v (GNU hash lookup finds every definition, for all lists; SysV: tie + executable lookups only).
Tie: T2 end-to-end, no hook: shared objects linked by the wild binary; .gnu.hash/.hash/.dynsym read back; the model's
tables (vm_compute) compared word for word; glibc-style lookups run over the real tables."""
from wvlib import *
import elfread
import tempfile, struct

TRUSTED = [
    "Coq 8.16.1 kernel incl. vm_compute; axioms: none",
    "model C08/Model.v: write_gnu_hash_tables / write_sysv_hash_table / bucket-count formulas; lookups transcribed from glibc elf/dl-lookup.c do_lookup_x",
    "theorem covers .gnu.hash (any number/spelling of names, any hash function); .hash (SysV) lookups are executed on the real tables and compared with the model, not proved (partial)",
    "tie: wild binary on generated shared objects; tools/elfread.py parses the output",
]

IMPORTS = """From Coq Require Import NArith List Bool. Import ListNotations.
From WV Require Import C08.Model.
Open Scope N_scope.
Definition name := list N.
Fixpoint leqb (a b : list N) : bool := match a, b with [] , [] => true | x :: a', y :: b' => (x =? y) && leqb a' b' | _, _ => false end.
Definition b2n (b : bool) : N := if b then 1 else 0.
Definition on (o : option N) : N := match o with Some x => x + 1 | None => 0 end.
(* names of the definitions in .dynsym order, symbol_base, number of dynsym entries *)
Definition gnu_case (names : list name) (symbase : N) :=
  let nb := gnu_bucket_count (N.of_nat (length names)) in
  let ds := map (fun n => (n, gnu_hash n)) names in
  let t := build_gnu name nb symbase ds in
  (nb, g_bloom t, map (g_buckets t) (map N.of_nat (seq 0 (N.to_nat nb))), g_chains t,
   map (fun d => on (gnu_lookup name leqb nb symbase t names (snd d) (fst d))) ds).
Definition sysv_case (names : list name) (symbase nchain : N) :=
  let nb := sysv_bucket_count (N.of_nat (length names)) in
  let hs := map sysv_hash names in
  let t := build_sysv nb symbase hs in
  let name_at := fun i => if i <? symbase then Some [] else nth_error names (N.to_nat (i - symbase)) in
  (nb, map (fst t) (map N.of_nat (seq 0 (N.to_nat nb))), map (snd t) (map N.of_nat (seq 0 (N.to_nat nchain))),
   map (fun n => on (sysv_lookup name leqb nb t nchain name_at (sysv_hash n) n)) names).
"""


def gen_names(rng, n):
    names = set()
    alphabet = "abcdefghijklmnopqrstuvwxyzABCDEFGHIJKLMNOPQRSTUVWXYZ0123456789_"
    pref = ["", "sym_", "_Z", "very_long_shared_prefix_for_hash_tests_", "f"]
    while len(names) < n:
        p = rng.choice(pref)
        ln = rng.choice([1, 2, 3, 5, 9, 17, 40])
        s = p + "".join(rng.choice(alphabet) for _ in range(ln))
        if s[0].isdigit():
            s = "_" + s
        names.add(s)
    # directed: names whose two bloom-filter bit positions coincide, and pairs colliding in (hash >> 1)
    if n >= 3:
        k = 0
        while True:
            cand = f"bl_{rng.randrange(10**6)}"
            h = elfread.gnu_hash(cand)
            if (h & 63) == ((h >> 6) & 63):
                names.discard(next(iter(names)))
                names.add(cand)
                k += 1
                if k == 2:
                    break
    return sorted(names, key=lambda x: rng.random())


def run(chk, replay=None):
    coq = coq_build(["C08"], ["C08/Props.v"])
    chk.add_coq(coq)
    okw, outw, wild = wild_build()
    if not okw:
        chk.tie_break("wild does not build", outw[-2000:])
        return chk.finish(TRUSTED)
    rng = chk.rng
    sizes = [0, 1, 2, 3, 4, 5, 7, 8, 9, 33, 64, 200] if chk.tier == "quick" else [0, 1, 2, 3, 4, 5, 6, 7, 8, 9, 15, 16, 17, 33, 64, 100, 257, 1000, 3000]
    d = tempfile.mkdtemp(prefix="wv-c08-")
    links = 0
    lookups = 0
    samples = []
    coq_items = []
    meta = []
    try:
        for n in sizes:
            names = gen_names(rng, n)
            src = ".text\n" + "".join(f".globl {s}\n.type {s},@function\n{s}: ret\n" for s in names) + ".globl helper_undefined_ref\n call ext_undef@PLT\n"
            open(f"{d}/a.s", "w").write(src)
            sh(f"as -o {d}/a.o {d}/a.s", check=True)
            for style in ("gnu", "sysv", "both"):
                out = f"{d}/lib_{n}_{style}.so"
                rc, o = sh(f"{wild} -shared --hash-style={style} -o {out} {d}/a.o", timeout=120)
                links += 1
                if rc != 0:
                    chk.violation(f"wild failed to link a shared object with {n} exported symbols, --hash-style={style}", {"n": n, "style": style, "names": names[:50], "stderr": o[-500:]})
                    continue
                e = elfread.Elf(out)
                dyn = e.symbols(".dynsym")
                defs = [s for s in dyn if s["shndx"] != 0 and s["index"] != 0]
                defnames = [s["name"] for s in defs]
                if sorted(defnames) != sorted(names):
                    chk.violation(f"exported symbols missing from .dynsym (n={n}, style={style})", {"n": n, "style": style, "missing": sorted(set(names) - set(defnames))[:20]})
                    continue
                symbase = defs[0]["index"] if defs else len(dyn)
                # ---- property predicate on the real tables
                for s in defs:
                    for kind, fn in (("gnu", elfread.gnu_lookup), ("sysv", elfread.sysv_lookup)):
                        if style not in (kind, "both"):
                            continue
                        lookups += 1
                        r = fn(e, s["name"])
                        if not isinstance(r, int) or dyn[r]["name"] != s["name"]:
                            chk.violation(f"{kind} hash lookup of exported symbol {s['name']!r} does not find it (n={n}, --hash-style={style}): {r}",
                                          {"n": n, "style": style, "names": names, "symbol": s["name"], "result": str(r)})
                for absent in ("not_there", "sym_", names[0] + "x" if names else "q"):
                    for fn in (elfread.gnu_lookup, elfread.sysv_lookup):
                        r = fn(e, absent)
                        if r is not None and absent not in defnames:
                            chk.violation(f"lookup of absent name {absent!r} returned {r}", {"n": n, "style": style, "names": names})
                # ---- tie: real tables vs model
                nl = "[" + "; ".join("[" + "; ".join(str(c) for c in nm.encode()) + "]" for nm in defnames) + "]"
                if style in ("gnu", "both"):
                    g = e.data(e.section(".gnu.hash"))
                    nb, sb, bn, sh_ = struct.unpack_from("<IIII", g, 0)
                    bloom = struct.unpack_from("<Q", g, 16)[0] if bn else 0
                    buckets = list(struct.unpack_from(f"<{nb}I", g, 16 + 8 * bn))
                    chains = list(struct.unpack_from(f"<{len(defs)}I", g, 16 + 8 * bn + 4 * nb))
                    real = [nb, bloom, buckets, chains]
                    if (sb, bn, sh_) != (symbase, 1, 6) or len(g) != 16 + 8 + 4 * nb + 4 * len(defs):
                        chk.tie_break(".gnu.hash header/size differs from the model", {"n": n, "header": [nb, sb, bn, sh_], "symbase": symbase, "len": len(g)})
                    coq_items.append(f"Eval vm_compute in gnu_case {nl} {symbase}.")
                    meta.append(("gnu", n, style, real, len(defs)))
                if style in ("sysv", "both"):
                    w = e.words(".hash")
                    if not w and not defs:
                        continue          # allocate_sysv_hash emits no table when there are no definitions
                    nb, nc = w[0], w[1]
                    real = [nb, w[2:2 + nb], w[2 + nb:2 + nb + nc]]
                    if nc != len(dyn) or len(w) != 2 + nb + nc:
                        chk.tie_break(".hash header/size differs from the model", {"n": n, "nbucket": nb, "nchain": nc, "dynsym": len(dyn)})
                    coq_items.append(f"Eval vm_compute in sysv_case {nl} {symbase} {len(dyn)}.")
                    meta.append(("sysv", n, style, real, len(defs)))
                if len(samples) < 4 and n in (3, 7):
                    samples.append({"n": n, "style": style, "names": defnames, "symbol_base": symbase})
    finally:
        shutil.rmtree(d, ignore_errors=True)
    # evaluate the model (one coqc per shard)
    shards = [[] for _ in range(NCPU)]
    for i, it in enumerate(coq_items):
        shards[i % NCPU].append((i, it))
    outs = coq_eval_sharded("c08", IMPORTS, ["\n".join(x[1] for x in s) + "\n" for s in shards], timeout=900)
    mism = 0
    for s, (rc, out) in zip(shards, outs):
        if not s:
            continue
        if rc != 0:
            chk.tie_break("model evaluation failed (coqc)", out[-1500:])
            continue
        vals = parse_all_coq_values(out)
        if len(vals) != len(s):
            chk.tie_break("model evaluation: unexpected number of answers", {"expected": len(s), "got": len(vals)})
            continue
        for (i, _), v in zip(s, vals):
            kind, n, style, real, ndefs = meta[i]
            if kind == "gnu":
                nb, bloom, buckets, chains, found = v
                if [nb, bloom, list(buckets), list(chains)] != real:
                    mism += 1
                    chk.tie_break(".gnu.hash words differ from the model", {"n": n, "style": style, "real": str(real)[:400], "model": str(v)[:400]})
                if any(f == 0 for f in found):
                    chk.tie_break("model lookup fails on model table (theorem hypothesis violated: definitions not sorted by bucket?)", {"n": n, "style": style})
            else:
                nb, buckets, chains, found = v
                if [nb, list(buckets), list(chains)] != real:
                    mism += 1
                    chk.tie_break(".hash words differ from the model", {"n": n, "style": style, "real": str(real)[:400], "model": str(v)[:400]})
                if any(f == 0 for f in found):
                    chk.tie_break("model SysV lookup fails on model table", {"n": n, "style": style})
    chk.cov.update({
        "evaluations": links + lookups, "distinct_nontrivial": lookups,
        "rule": "shared objects with n exported names (n in %s; random spellings, shared prefixes, lengths 1..80) x --hash-style={gnu,sysv,both}; every defined dynamic symbol looked up through "
                "both tables with glibc's algorithm; tables compared word for word with the model; non-trivial = one lookup of one defined symbol" % sizes,
        "links": links, "lookups": lookups, "table_mismatches": mism, "samples": samples,
    })
    chk.assumptions = TRUSTED
    return chk.finish(TRUSTED)
