"""Generator of multi-object x86-64 programs with a known reference graph (shared by C39, C05, C06, ...).

A program = N objects; object k has functions f<k>_<j>, each in its own section .text.f<k>_<j> (as -ffunction-sections),
call sites use direct, PLT, GOT, lea and 64-bit absolute forms, functions may carry R_X86_64_NONE references (edges
that patch nothing), data objects d<k>_<j> in .data.d<k>_<j> holding pointers, members of a C-identifier-named set section `myset`
(start/stop roots), optional .init_array entries.  Every function returns a distinct constant combined with the
results of its callees, so that _start's exit status is a checksum of the reachable call tree (cycles are cut by a
depth counter in %rdi)."""
import random


class Program:
    def __init__(self, rng, nobj, nfun, density=0.25, with_set=True, with_init=True):
        self.rng = rng
        self.nobj, self.nfun = nobj, nfun
        self.funcs = [(k, j) for k in range(nobj) for j in range(nfun)]
        self.calls = {}      # function -> list of callees (functions)
        self.dataptrs = {}   # data object -> list of functions it points at
        self.fdata = {}      # function -> data objects it loads from
        self.setmembers = [] # (obj, idx, function pointed at)
        self.init = []       # functions registered in .init_array
        for f in self.funcs:
            n = rng.choice([0, 0, 1, 1, 2, 3]) if rng.random() < 0.9 else 6
            self.calls[f] = [rng.choice(self.funcs) for _ in range(n)] if rng.random() < density * 3 else []
            self.fdata[f] = []
        # how each call site refers to its callee (every form is a GC edge), and references that patch nothing at all
        self.callform = {f: [rng.choice(["call", "call", "plt", "got", "lea", "abs64"]) for _ in self.calls[f]] for f in self.funcs}
        self.none_refs = {f: ([rng.choice(self.funcs) for _ in range(rng.choice([1, 2]))] if rng.random() < 0.2 else []) for f in self.funcs}
        self.data = [(k, j) for k in range(nobj) for j in range(max(1, nfun // 3))]
        for d in self.data:
            self.dataptrs[d] = [rng.choice(self.funcs) for _ in range(rng.choice([0, 1, 2]))]
        for f in self.funcs:
            if rng.random() < 0.2:
                self.fdata[f] = [rng.choice(self.data)]
        if with_set:
            for k in range(nobj):
                if rng.random() < 0.5:
                    self.setmembers.append((k, len(self.setmembers), rng.choice(self.funcs)))
        if with_init:
            for _ in range(rng.choice([0, 1, 2])):
                self.init.append(rng.choice(self.funcs))
        self.root_calls = [rng.choice(self.funcs) for _ in range(rng.choice([1, 2, 3]))]
        self.uses_set = with_set and bool(self.setmembers) and rng.random() < 0.7
        self.set_user = rng.choice(self.funcs) if self.uses_set else None

    def fname(self, f):
        return f"f{f[0]}_{f[1]}"

    def dname(self, d):
        return f"d{d[0]}_{d[1]}"

    def reachable(self):
        """functions / data / set members kept by --gc-sections according to the ELF GC rules"""
        seen_f, seen_d = set(), set()
        set_live = False
        work = [("f", f) for f in self.root_calls] + [("f", f) for f in self.init]
        while work:
            kind, x = work.pop()
            if kind == "f":
                if x in seen_f:
                    continue
                seen_f.add(x)
                for c in self.calls[x]:
                    work.append(("f", c))
                for c in self.none_refs[x]:          # an R_X86_64_NONE relocation is a reference like any other
                    work.append(("f", c))
                for d in self.fdata[x]:
                    work.append(("d", d))
                if self.uses_set and x == self.set_user and not set_live:
                    set_live = True
                    for (_k, _i, tgt) in self.setmembers:
                        work.append(("f", tgt))
            else:
                if x in seen_d:
                    continue
                seen_d.add(x)
                for c in self.dataptrs[x]:
                    work.append(("f", c))
        return seen_f, seen_d, set_live

    def sources(self):
        """returns {filename: asm text}; main.s holds _start"""
        out = {}
        for k in range(self.nobj):
            s = []
            for j in range(self.nfun):
                f = (k, j)
                s.append(f'.section .text.{self.fname(f)},"ax",@progbits\n.globl {self.fname(f)}\n.type {self.fname(f)},@function\n{self.fname(f)}:')
                s.append(f" push %rbx\n mov ${1 + (k * 31 + j * 7) % 97},%ebx")
                s.append(" test %edi,%edi\n jz 9f\n dec %edi")
                for c, form in zip(self.calls[f], self.callform[f]):
                    n = self.fname(c)
                    how = {"call": f" call {n}", "plt": f" call {n}@PLT", "got": f" mov {n}@GOTPCREL(%rip),%rax\n call *%rax",
                           "lea": f" lea {n}(%rip),%rax\n call *%rax", "abs64": f" movabs ${n},%rax\n call *%rax"}[form]
                    s.append(f" push %rdi\n{how}\n pop %rdi\n add %eax,%ebx")
                for c in self.none_refs[f]:
                    s.append(f" .reloc ., R_X86_64_NONE, {self.fname(c)}")
                for d in self.fdata[f]:
                    s.append(f" lea {self.dname(d)}(%rip),%rax\n add (%rax),%ebx")
                if self.uses_set and f == self.set_user:
                    s.append(" lea __start_myset(%rip),%rax\n lea __stop_myset(%rip),%rcx\n sub %rax,%rcx\n add %ecx,%ebx")
                s.append("9: mov %ebx,%eax\n pop %rbx\n ret")
            for d in [d for d in self.data if d[0] == k]:
                s.append(f'.section .data.{self.dname(d)},"aw",@progbits\n.globl {self.dname(d)}\n.type {self.dname(d)},@object\n{self.dname(d)}:\n .quad {3 + d[1]}')
                for c in self.dataptrs[d]:
                    s.append(f" .quad {self.fname(c)}")
            for (kk, i, tgt) in self.setmembers:
                if kk == k:
                    s.append(f'.section myset,"aw",@progbits\n.globl setm_{i}\nsetm_{i}: .quad {self.fname(tgt)}')
            out[f"o{k}.s"] = "\n".join(s) + "\n"
        m = ['.section .text._start,"ax",@progbits\n.globl _start\n_start:\n xor %ebx,%ebx']
        for c in self.root_calls:
            m.append(f" mov $6,%edi\n call {self.fname(c)}\n add %eax,%ebx")
        m.append(" mov %ebx,%edi\n and $127,%edi\n mov $60,%eax\n syscall")
        if self.init:
            m.append('.section .init_array,"aw",@init_array')
            for f in self.init:
                m.append(f" .quad {self.fname(f)}")
        out["main.s"] = "\n".join(m) + "\n"
        return out
