#!/usr/bin/env python3
"""Regenerates DESIGN.md §10 (as built) from the registry, the Coq property files, known_findings.json and seeded/*/meta.json."""
import json, os, re, sys
ROOT = os.path.dirname(os.path.dirname(os.path.abspath(__file__)))
sys.path.insert(0, os.path.join(ROOT, "tools"))
import registry

out = []
props = {json.loads(l)["id"]: json.loads(l) for l in open(os.path.join(ROOT, "properties.jsonl"))}
out.append("### 10.1 What decides each property\n")
out.append("| id | theorems in `coq/<id>/Props.v` (each closed by `exact`, `Print Assumptions` below it: all `Closed under the global context`) | tie, checked on every run | partial? |")
out.append("|---|---|---|---|")
for pid in sorted(registry.CLAIMED):
    c = registry.CLAIMED[pid]
    dirs = {"C05": "C39", "C37": "C03", "C18": "C18", "C19": "C19", "C21": "C21"}
    names = []
    for dname in (pid, dirs.get(pid, pid)):
        p = os.path.join(ROOT, "coq", dname, "Props.v")
        if os.path.exists(p):
            names += re.findall(r"^\s*(?:Theorem|Definition)\s+(C\d\d\w*)\b", open(p).read(), re.M)
    names = list(dict.fromkeys(names))
    note = c["note"]
    partial = "partial" if note.lower().startswith("partial") or "Partial" in note else "full for the model"
    tie = re.sub(r"^Partial:[^.]*\.\s*", "", note)
    tie = tie[tie.find("Tie"):] if "Tie" in tie else (tie or note)
    out.append(f"| {pid} | " + ", ".join(f"`{n}`" for n in names[:9]) + (" …" if len(names) > 9 else "") + f" | {tie[:420]} | {partial} |")
out.append("")
kf = json.load(open(os.path.join(ROOT, "known_findings.json")))["findings"]
out.append("### 10.2 Genuine defects found on the pinned tree\n")
out.append("Repaired by a minimal unguarded `fix:` commit in /repo (the unedited suite passes with each: the 4 baseline failures only; `rust-integration/llvm-dynamic` fails now and then under an 8-way parallel run "
           "with `Binary ran for too long` on the binary GNU ld linked, and passes alone):\n")
out.append("| property | commit | what failed |")
out.append("|---|---|---|")
for f in kf:
    if f["status"] == "fixed":
        what = re.sub(r"^fixed: property=\w+ \w+ ", "", f["what"])
        out.append(f"| {f['property']} | `{f.get('commit', '?')}` | {what} |")
out.append("")
out.append("Recorded, not repaired (the repair is not small, is pinned by an existing test, or is a design decision of the tool); each check prints `KNOWN-FINDING:` for these and still reports any other violation:\n")
out.append("| id | what fails |")
out.append("|---|---|")
for f in kf:
    if f["status"] == "known":
        out.append(f"| `{f['id']}` | {f['what']} |")
out.append("")
out.append("### 10.3 Seeded changes (one per property, produced by sub-agents that saw only the property text)\n")
out.append("| property | caught by | note |")
out.append("|---|---|---|")
sd = os.path.join(ROOT, "seeded")
for name in sorted(os.listdir(sd)):
    mp = os.path.join(sd, name, "meta.json")
    if not os.path.exists(mp):
        continue
    m = json.load(open(mp))
    lines = (m.get("our_check") or {}).get("lines") or []
    verdict = "violation with replay" if any("VIOLATION" in l and "no-failing-input-found" not in l for l in lines) else ("broken tie (no-failing-input-found)" if any("VIOLATION" in l for l in lines) else ("violation with replay, after the check was strengthened (see note)" if m.get("caught") else "NOT caught"))
    if m.get("caught") and verdict == "NOT caught":
        verdict = "violation with replay (after strengthening)"
    out.append(f"| {name} | {verdict} | {(m.get('note') or '').replace('|', '/')[:400]} |")
out.append("")
text = "\n".join(out)
p = os.path.join(ROOT, "DESIGN.md")
s = open(p).read()
a = s.find("<!-- BEGIN GENERATED 10 -->")
b = s.find("<!-- END GENERATED 10 -->")
if a >= 0 and b >= 0:
    s = s[:a] + "<!-- BEGIN GENERATED 10 -->\n" + text + "\n" + s[b:]
    open(p, "w").write(s)
    print("DESIGN.md §10 regenerated")
else:
    print(text)
