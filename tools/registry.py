"""Per-property registry: drives MANIFEST.json (tools/gen_manifest.py)."""
# id -> dict(text, note, technique, design_ref)
CLAIMED = {
    "C29": dict(
        text="S1 (full). Theorems over unbounded N with the 2^64 bound explicit: align_up/align_down/align_modulo return exactly the "
             "least/greatest/least-congruent value for every exponent and every 64-bit input, and the only inputs not answered are those "
             "with no 64-bit answer (debug panic / release wrap, both modelled); Alignment::new accepts iff raw = 2^e, e<=16. "
             "Tie: model vs compiled implementation (debug and release) on a boundary lattice + random cases, every run.",
        note="Trusted: Coq 8.16.1 kernel + vm_compute; no axioms; hand-written model of alignment.rs (std next_multiple_of/is_power_of_two by spec); "
             "correspondence harness wvh through libwild::verif_hooks::alignment.",
        technique="Coq proof (N arithmetic, lia) + model/implementation correspondence by vm_compute",
        design_ref="DESIGN.md §3 C29"),
}

PENDING_REASON = "not claimed yet: model/theorems for this property are not built in this revision (see DESIGN.md §8 construction order)"
