"""Per-property registry: drives MANIFEST.json (tools/gen_manifest.py)."""
# id -> dict(text, note, technique, design_ref)
CLAIMED = {
    "C29": dict(
        text="S1 (full). Theorems over unbounded N with the 2^64 bound explicit: align_up/align_down/align_modulo return exactly the "
             "least/greatest/least-congruent value for every exponent and every 64-bit input, and the only inputs not answered are those "
             "with no 64-bit answer (debug panic / release wrap, both modelled); Alignment::new accepts iff raw = 2^e, e<=16. "
             "Tie: model vs compiled implementation (debug and release) on a boundary lattice + random cases, every run.",
        note="Trusted: Coq 8.16.1 kernel + vm_compute; no axioms; hand-written model of alignment.rs (std next_multiple_of/is_power_of_two by spec); "
             "correspondence harness wvh through libwild::verif_hooks::alignment.",
        technique="Coq proof (N arithmetic, lia) + model/implementation correspondence by vm_compute",
        design_ref="DESIGN.md §3 C29"),
    "C13": dict(
        text="S1. Every instruction kind of AArch64/RISC-V/LoongArch write_to_value/read_value is a bit-slice term; three theorems for ALL old words and ALL in-range values, "
             "decided per kind by a reflective checker proved sound (BitReflect): locality (only field bits change), independence from the prior field, decode(encode)=value. "
             "Full-strength statements are refuted for 5 known classes (witnesses proved in Coq and reproduced on the implementation); theorems proved are the _except_known forms. "
             "Arithmetic decoders (Movnz NOT, C.LUI/U-type +0x800, Call36) are covered by the tie only (partial).",
        note="Trusted: Coq kernel + vm_compute; no axioms; hand model of the three writer/reader files; field masks transcribed from ISA manuals; tie = pub API of linker-utils "
             "run on a basis (single-bit/all-ones old words x single-bit/max/random values) + random; relocation-table bit ranges dumped from the compiled crate.",
        technique="Coq proof by bit-slice reflection (sound finite checker per kind) + model/implementation correspondence by vm_compute",
        design_ref="DESIGN.md §3 C13"),
    "C12": dict(
        text="S1. The relocation tables are regenerated from the compiled crate on every run (T1); theorems accept_complete / reject_sound / table_total / "
             "no_truncation / field_width hold for ALL 64-bit values, obtained by lifting finite per-row interval checks (vm_compute over the regenerated table) "
             "with soundness lemmas. Spec rows (x86-64 + AArch64 static types) are hand-written from psABI/bfd/lld rules; x86-64 data rows are validated against "
             "the installed ld/ld.lld; the bit-mask arm of write_to_buffer is C13. Three genuine defects found by these theorems were repaired (fix: commits).",
        note="Trusted: Coq kernel + vm_compute, no axioms; compile-and-dump translator (rustc is the parser); hand spec (AArch64 bfd column unvalidated: conservative intersection/union); "
             "tie = verify/write_to_buffer through the pub API on boundary values of every x86-64/AArch64 row + wild binary end-to-end on x86-64 data relocations.",
        technique="Coq proof (finite row checks lifted by soundness lemmas) over a model regenerated from source + correspondence run",
        design_ref="DESIGN.md §3 C12"),
    "C16": dict(
        text="S1 for evaluation: theorem eval_agrees (induction over all expression trees): whenever GNU ld's semantics (stated independently over Z: exact arithmetic "
             "reduced mod 2^64, signed division, shift counts mod 64, unsigned comparisons, 0/1 logic) give a value, the evaluator gives the same 64-bit value; assert_fails_iff. "
             "Parser: token-level model of the ten parse_* levels as a table-driven parser; theorem that wild's level table equals ldgram.y's except for the comparison level "
             "(refuted witness = known finding); the parse(show e)=e round trip is validated by the tie on all 17x17 operator pairs + random trees, not proved (partial).",
        note="Trusted: Coq kernel + vm_compute, no axioms; hand model of linker_script.rs/expression_eval.rs (constant fragment: no ALIGN/SIZEOF/symbols); lexing done by the generator; "
             "spec validated against installed GNU ld 2.40 via ASSERT scripts (XOR not validatable: ld 2.40 lexer lacks ^); tie through verif_hooks::linker_script and the wild binary.",
        technique="Coq proof by structural induction (N model vs Z specification) + table comparison + model/implementation correspondence by vm_compute",
        design_ref="DESIGN.md §3 C16"),
    "C17": dict(
        text="S2. Theorem exit0_implies_written over the model's whole fault space ({fork,no-fork} x 8 phase boundaries x {error,panic,abort,SIGKILL,SIGSEGV}, enumerated by vm_compute and lifted "
             "with a completeness lemma for the enumeration), plus parent_exit_zero_iff for EVERY possible wait status of the child. Pinned tree refuted (witness: worker SIGKILLed before writing, "
             "parent exits 0) and repaired by a fix: commit. Runtime (kernel wait-status encoding, Rust panic exit code, pipe semantics) is validated by replaying the entire fault space on the real binary.",
        note="Trusted: Coq kernel + vm_compute, no axioms; hand model of subprocess.rs/main.rs exit paths; Linux wait-status encoding as definitions; hooks = WILD_VERIF_POINT fault points; "
             "strace syscall injection. Not modelled: faults at arbitrary instructions between phase boundaries (covered only by strace samples), allocation failure other than abort.",
        technique="Coq proof over an exhaustively enumerated finite fault model + trace validation of every model run against the real binary",
        design_ref="DESIGN.md §3 C17"),
    "C08": dict(
        text="S1 for .gnu.hash: theorem gnu_lookup_finds, for ALL lists of definitions sorted by bucket (any count, any names, any hash function, any bucket count > 0, symbol_base >= 1): "
             "glibc's new-hash lookup (bloom test, bucket, chain walk with stop bit) over the tables write_gnu_hash_tables emits finds an entry with an equal name for every definition; "
             "and no walk returns a different name. Proved by induction over the list (loop invariant for the bucket array, run lemma for the chain walk). "
             ".hash (SysV): model + executable lookups validated on real tables, not proved (partial).",
        note="Trusted: Coq kernel + vm_compute, no axioms; hand model of the two writers and of glibc do_lookup_x; tie = wild binary on generated shared objects (0..200 / 3000 names x 3 hash styles), "
             "tables compared word for word with the model and every defined symbol looked up on the real tables; symbol versions (check_match version test) not modelled.",
        technique="Coq proof by induction over symbol lists (loop invariants) + model/implementation correspondence on real output tables",
        design_ref="DESIGN.md §3 C08"),
    "C02": dict(
        text="S1. The selection loop (select_symbol + SymbolPrioritySelector) is modelled as written; a loop invariant (Inv) proved by induction over candidate lists of any length gives the "
             "declarative rules: first non-dynamic strong wins; else the first of the largest commons; else the first weak/unique; a shared-library definition is chosen only if no object defines "
             "the name; duplicate-definition error sound and complete (first strong vs a later strong, not both COMDAT, unless multiple definitions are allowed). The link-level stream also uses hidden and protected references (a shared library cannot satisfy them: the choice is made among the objects' definitions wherever the libraries stand).",
        note="Trusted: Coq kernel + vm_compute, no axioms; hand model of symbol_db.rs selection; tie = real selector through a hook (all lists of length <= 3, sampled/all of length 4) + whole links "
             "with 1..3 candidate files in every order read back from the output. Not modelled: which files are loaded (C03), visibility merging, versions; undefined-reference rules are checked by two links only.",
        technique="Coq proof by loop invariant over candidate lists + model/implementation correspondence (hook + whole links)",
        design_ref="DESIGN.md §3 C02"),
    "C15": dict(
        text="S1 for the rule table: spec = POSIX fnmatch in Gallina; theorems (all rule lists, all names/files): the 4-byte-keyed table returns exactly the first rule in script order whose "
             "patterns fnmatch, with its KEEP flag, for rule sets of 'good' patterns (four ordinary leading bytes, escape-free) — proved from a general theorem with explicit semantic side conditions, "
             "plus lemmas: literal prefix determines the key, escape-free glob = fnmatch, plain pattern = equality. Unrestricted statement refuted: 3 known classes with Coq witnesses. "
             "KEEP => never garbage-collected belongs to C05's roots and is not proved here.",
        note="Trusted: Coq kernel + vm_compute, no axioms; hand model of glob_match.rs/layout_rules.rs and of the glob crate's matcher (fnmatch without escapes); hashbrown equal-key order = insertion order (validated); "
             "Gallina fnmatch validated against glibc fnmatch(3); tie through verif_hooks::layout_rules::lookup (real SectionRule::new/from_rules/lookup) under catch_unwind.",
        technique="Coq proof (structural induction over rule lists and patterns) + model/implementation correspondence by vm_compute",
        design_ref="DESIGN.md §3 C15"),
    "C39": dict(
        text="S1. The traversal (activate_group / do_pending_work / send_work / activation counter / delay queue) is a labelled transition system, one step per critical section. Proved for ALL "
             "reachable states, i.e. all interleavings, any number of groups and any request graph: no_lost_work (work in a slot is never behind a parked worker), requests_are_routed, "
             "terminal_closure (a terminal state without reported error has every group parked with empty queues, counter 0, delay queue empty, and handled set = exactly the closure of the roots) and "
             "every_run_finite (a natural-number potential strictly decreases at every step). 'No group's state handled by two threads' is Rust move semantics, structural in the model.",
        note="Trusted: Coq kernel + vm_compute, no axioms; hand model; sequentially consistent interleavings (weak-memory effects of the Relaxed counter on non-TSO hardware are outside the model); "
             "tie (T3) = event log recorded inside the critical sections of a verif_hooks build, replayed through the model's validator (Replay.v) for generated programs x thread counts x "
             "perturbation seeds; handler contents abstracted to a successor function (validated by C05).",
        technique="Coq proof: invariants over a transition system (all interleavings) + potential-function termination + trace validation of real executions",
        design_ref="DESIGN.md §3 C39, Appendix C.1"),
    "C05": dict(
        text="S1 at the reference-graph level: C39_terminal_closure proves, for every request graph and every schedule, that the kept set is exactly the closure of the roots under the successor "
             "(relocation-reference) relation. That the real handlers emit exactly the relocation targets, and the root set (entry, init_array, start/stop sections, ...) — is validated on generated "
             "programs: kept set read from the output vs closure computed from the generator's graph, and run-time equivalence with --no-gc-sections.",
        note="Trusted: as C39; generator tools/objgen.py computes the expected closure independently; roots KEEP/retain/notes/exported symbols are not in the generated stream (partial on the root set).",
        technique="Coq proof (closure = handled set at every terminal state of the transition system) + model/implementation correspondence on generated reference graphs",
        design_ref="DESIGN.md §3 C05"),
    "C40": dict(
        text="S1 for safety, PARTIAL for progress. The hand-off protocol (reserve by load+CAS, pop, deliver per bucket through the slot, take-or-park, return, inline respawn, unreserve) is an "
             "executable transition function; proved for all reachable states (= all interleavings, any G, B, capacity): pool conservation and pool_restored; a bucket merges only the strings of "
             "its next group, delivered by that group's input task and not yet taken (exactly once, in order); the group counter moves by one only after a merge; no hand-off is lost (delivered "
             "and untaken => in the slot); a parked bucket waits for an undelivered group. Progress: terminal_done_partial (nothing can move and all groups popped => all buckets done, pool full). "
             "NOT proved: that a state where nothing can move has popped every group (failed-CAS stranding); covered by trace validation and the finished-state check of every recorded history only.",
        note="Trusted: Coq kernel + vm_compute, no axioms; hand model, sequentially consistent interleavings; tie (T3) = event log of a verif_hooks build (events appended inside the slot "
             "critical section or with the log mutex held across the atomic), POP events re-positioned in pop order by the driver, every history replayed through the same step function with "
             "observed values compared and required to end in the finished state.",
        technique="Coq proof: 13-field invariant over an executable transition function (all interleavings) + trace validation of real executions by the same function",
        design_ref="DESIGN.md §3 C40, Appendix C.2"),
    "C03": dict(
        text="S1. Specification = least set containing the non-optional files and closed under non-weak references to the first definition of a name (a definition independent of where an archive "
             "sits relative to its referrers). Theorem loaded_is_lfp: in the parallel worklist model (any pending file may be processed next, a file is queued at most once) every state with "
             "nothing pending has loaded set = the specified set — for all link lines and all schedules. The correspondence run compares wild's loaded set with a closure that is verified, per case, "
             "by a certificate checker proved sound and complete for the specification.",
        note="Trusted: Coq kernel + vm_compute, no axioms; hand model of is_optional / name table / resolve_symbol; reading of 'defines' when several files define a name follows the mechanism "
             "(first definition in command-line order); tie = wild binary on generated link lines (archives, thin archives, --whole-archive, --start-lib, shared libs, weak refs).",
        technique="Coq proof (worklist invariant over all schedules; certificate checker soundness) + model/implementation correspondence on generated link lines",
        design_ref="DESIGN.md §3 C03"),
    "C14": dict(
        text="S1: Gallina models of RelaxationKind::apply and ElfX86_64::new_relaxation over a zipper of (bytes, offset), a decoder + effect semantics for the instruction forms involved "
             "(legacy/REX/REX2 prefixes), and the relocation applied after the rewrite (value, range check and width from the regenerated C12 table). Theorems: for every r_type in "
             "{GOTPCREL, GOTPCRELX, REX_GOTPCRELX, CODE_4_GOTPCRELX, GOTTPOFF, CODE_4_GOTTPOFF}, every psABI-form instruction new_relaxation rewrites, every symbol value V, place P and slot G for which "
             "the new relocation is accepted, the rewritten instruction has the same effect and successor as the original with the slot holding V; the nine TLS rewrites (GD->LE, GD->LE large, "
             "GD->IE, LD->LE x3, TLSDESC->LE REX/REX2, TLSDESC->IE, TLSDESC_CALL) compute TP+V / TP / V in the right register, touch nothing else and have the original length. "
             "Partial: the EVEX (APX NDD/NF, CODE_6_GOTTPOFF) form is tied model-to-code but its semantics are not in the decoder, so it has no semantic theorem.",
        note="Trusted: hand-written decoder/semantics (validated against objdump for legacy/REX forms; REX2 by review), flags abstracted as a function of (op,width,operands), psABI result of the "
             "original TLS call sequences, psABI-form assumption on the relocated instruction, Check.new_value for S+A / S+A-P / TPOFF / G+A-P. The predicate is also evaluated on the "
             "implementation's own patched bytes over a 16-value lattice, and real links are run on this host with absolute symbols at boundary values. One defect repaired (fix: R_X86_64_32S).",
        technique="Coq proof (finite enumeration of instruction headers with symbolic fields + modular arithmetic) + model/implementation correspondence through verif_hooks::x86_64::new_relaxation + objdump/e2e validation",
        design_ref="DESIGN.md §3 C14"),
    "C30": dict(
        text="S1: Gallina models of wild's array ordering (init_fini_priority/parse_priority_suffix, one secondary output section per priority sorted by priority behind the primary, parts by "
             "decreasing alignment, .ctors/.dtors contents reversed) and of GNU ld's default script (SORT_BY_INIT_PRIORITY over .init_array.* and .ctors.* with ld's section-name tie-break, then "
             "the plain sections in input order). Theorem: for every list of sections whose suffixes are priorities below 65535 after the .ctors inversion, with one alignment and equal "
             "priorities spelled alike, wild's order = ld's order (via: a stable sort is the concatenation of its key buckets). Three refutation theorems mark the rest of the input space; "
             "each is reproduced against wild and GNU ld and recorded as a known finding. Extent of the section (C30/Extent.v): OutputRecordLayout::merge and the placement of the per-priority "
             "parts; theorem: for every start position, every list of parts (power-of-two alignments, positive sizes) and every merge order the section starts at its first part, contains every "
             "part and ends with the last one; the pinned tree's sum-of-sizes merge is refuted (repaired in /repo).",
        note="Trusted: the GNU ld side is a specification; it is validated on every run against ld 2.40 itself on the generated links (0 disagreements), as is wild against wild_order. crtbegin/"
             "crtend EXCLUDE_FILE clauses are outside the model. Entries are read back between __X_array_start/__X_array_end and, separately, inside sh_size (what DT_X_ARRAYSZ covers). "
             "The extent model is run on the parts recorded by the layout trace hook and compared with the section header wild wrote.",
        technique="Coq proof (stable insertion sort = bucket concatenation, induction over lists and ranges) + model/implementation and spec/GNU-ld correspondence on generated links",
        design_ref="DESIGN.md §3 C30"),
    "C33": dict(
        text="S1: Gallina models of wild's --wrap handling (apply_wrapped_symbol_overrides: all look-ups in the unmodified name table first, then the overrides in --wrap order; the pinned "
             "tree interleaved them) and of GNU ld's rule (a one-step renaming applied to undefined references). Theorems: closed form of wild's table for every list of wrapped base names, "
             "repetitions included (the pinned tree is refuted for a repeated name; repaired in /repo); for every name table in which each wrapped S "
             "has a __wrap_S (and no stray __real_S when S is undefined), every referenced name binds under wild exactly as under GNU ld (S -> __wrap_S, __real_S -> S, all else unchanged); "
             "references from the defining object are unaffected in both. Two refutation theorems delimit the domain; each is reproduced against wild and GNU ld and recorded.",
        note="Trusted: the GNU ld side is a specification, validated on every run against ld 2.40 on the generated programs; the tie is behavioural (generated programs are linked by both linkers and "
             "run; each call site reports which function it reached), with definitions in objects, archive members and a shared library. Symbol versions/LTO are outside the generated inputs.",
        technique="Coq proof (induction over the --wrap list, closed form of the fold) + model/implementation and spec/GNU-ld correspondence on generated, executed programs",
        design_ref="DESIGN.md §3 C33"),
    "C18": dict(
        text="S2: an abstract file system (Cfs/Model.v: names, inodes, contents; rename/unlink/O_TRUNC/ETXTBSY) and the file operations of one link transcribed from file_writer.rs and "
             "lib.rs (default and forced write modes, background vs main-thread creation, the ETXTBSY fallback, failure before set_size / after it / in the write phase / after it, "
             "remove_after_failed_link). Theorems: for every configuration, prior state and failure point at which wild returns an error, the output path is afterwards absent or still "
             "bound to the old inode with its old contents; a successful link leaves a complete fresh file. A link that is KILLED after the file exists is refuted in the model and recorded.",
        note="Trusted: the transcription of the operation sequence and the kernel rules; tied on every run by executing the hooked wild over the configuration matrix (natural errors and "
             "WILD_VERIF_POINT error injection) and comparing the state of the output path (inode, bytes, mtime) with the model. One defect repaired (fix: remove the output file when the link fails).",
        technique="Coq proof (case analysis over the link's control flow on an abstract file system) + model/implementation correspondence by fault injection over the configuration matrix",
        design_ref="DESIGN.md §3 C18"),
    "C19": dict(
        text="S2 on the shared abstract file system (Cfs/Model.v): for every configuration, failure point (error return or kill) and prior directory in which the parking name chosen by "
             "unused_sibling_path is unused, every name other than the output's is bound after the link exactly as before (nothing is left under the parking name) and every inode that existed "
             "before, other than the one the output name was bound to, keeps its contents. Refutations: a parking name that exists is destroyed (the repaired defect, formerly <stem>.delete); "
             "a hard link to the old output sees the in-place update (recorded).",
        note="Trusted: as C18; side files (--write-layout, --write-trace, --dependency-file) are declared outputs whose contents are not modelled. The tie is by directory snapshots (inode, size, "
             "sha256, mode of every entry) before/after real runs over output names x write modes x threads x failure points x side-file flags with eight look-alike siblings, plus concurrent "
             "pairs of links sharing a stem. One defect repaired (fix: unused parking name instead of <stem>.delete).",
        technique="Coq proof (an invariant relating the file system to its initial state, preserved by every operation of the link) + directory-snapshot correspondence on real runs",
        design_ref="DESIGN.md §3 C19"),
    "C21": dict(
        text="S2 on the shared abstract file system (Cfs/Model.v): with default options, in a directory wild may modify, whether the old output is a mapped shared object or a running "
             "executable, for every thread count and wherever the link stops (success, error return or kill), the inode the running process uses keeps its contents; the new output is a new "
             "inode. Refuted for a directory in which the old name cannot be removed while the file itself is writable (recorded).",
        note="Trusted: as C18 plus the kernel rule that a process executing or mapping an inode sees in-place modifications of it. Tie: real processes (a dynamically linked, libc-free program "
             "and its library) report constants from their mapped/executing text before and after wild relinks the library / the program itself; a fresh process must see the new constants; "
             "the unwritable-directory case is replayed as uid 65534.",
        technique="Coq proof (case analysis over the link's file operations on an abstract file system) + correspondence with live processes across a relink",
        design_ref="DESIGN.md §3 C21"),
    "C36": dict(
        text="S1: Gallina model of merge_gnu_property_notes (one pass over all properties of all inputs with a map keyed by type, class from get_property_class, final filter, -z x86-64-vN) and "
             "of the stack rule (validate_stack_section, PF_X iff -z execstack); specification = per property type the AND / OR / OR_AND of the inputs' values with GNU ld's drop rules, in type "
             "order (spec_merge), plus GNU ld's unmerged copy of a one-object link (gnu_note), and GNU ld's stack rule. Theorems: for every list of inputs wild's note carries exactly the specified "
             "bits (or the link is rejected for an unclassified type) and IS GNU ld's note outside the one-object class with generic 0xb000xxxx entries (refuted there, recorded); on every accepted link "
             "PT_GNU_STACK is executable iff GNU ld's is, unless stack notes are partly missing without a -z flag (refuted there, recorded).",
        note="Trusted: the specification is validated on every run against GNU ld 2.40 itself (property note and PT_GNU_STACK of the same links; 0 disagreements); 4-byte properties only; shared "
             "library inputs and -z ibt/shstk are outside the generated inputs; GNU ld 2.40 aborts on -z x86-64-baseline, so that flag is not generated.",
        technique="Coq proof (fold over the flattened property list = per-file fold, by induction with NoDup) + model/implementation and spec/GNU-ld correspondence on generated links",
        design_ref="DESIGN.md §3 C36"),
    "C07": dict(
        text="S1, sequential semantics of string merging: Gallina models of process_input_section (range-restricted NUL splitting with the part-way-through-a-string skip), "
             "MergeStringsSectionBucket::add_string (de-duplication, offsets) and find_string / get_merged_string_output_address (exact offset, else backwards search plus distance). Theorems: "
             "however the input is cut into work groups, every string start is processed by exactly one group; the index remaining[offset-1] is in bounds; the offset a bucket hands out points "
             "at a copy of the string and earlier offsets stay valid; a reference to ANY offset of a section resolves to output bytes equal to the input bytes up to and including the NUL. "
             "The parallel hand-off is C40.",
        note="Trusted: addresses = bucket base + offset from layout; the tie links generated programs with 256-byte work groups (strings starting exactly on / next to group boundaries, duplicates, "
             "suffixes, empty strings, named and section-symbol references into the middle of strings) at 1/4/16 threads: the self-checking program compares every referenced string with an "
             "unmerged copy, the merged output section must hold each distinct string exactly once, behaviour must equal --no-string-merge, and the model's process_all over the same cuts must "
             "produce exactly the strings checked.",
        technique="Coq proof (induction over the splitting loop with a string-start invariant; list lemmas for de-duplication and lookup) + link-and-run correspondence with tiny work groups",
        design_ref="DESIGN.md §3 C07"),
    "C32": dict(
        text="S1: Gallina models of wild's find_match (first exact node; else last node with a `*`-less glob; else last node with a `*` glob; else the bare `*`; global before local inside a node) "
             "and of GNU ld's bfd_find_version_for_sym (first exact node; else the last global wildcard node, else local; the bare `*` last), each node abstracted to its match bits for one "
             "symbol. Theorem: for every script and symbol whose wildcard matches are of one kind and where no local-only wildcard node follows a global wildcard node, wild picks GNU ld's "
             "node and hides the symbol exactly when GNU ld does. Two refutation theorems delimit the domain (recorded). The verdef/versym consistency is a structural predicate evaluated "
             "on wild's output (indices, vd_cnt/vda_next chains, parents, hashes, sh_info), not a theorem. From the TEXT (C32/FromText.v): parser model (C22/VScript.v) + glob-crate and fnmatch "
             "models (C15) + the two searches give the version of a symbol as a function of the script's bytes; theorem: for every text that parses as versions whose wildcard patterns have "
             "no backslash and every name with canonical match bits, wild's version = GNU ld's.",
        note="Trusted: whether one pattern matches one name is fnmatch (C15); the driver's match bits (Python fnmatch) are cross-checked on every run against the text-level model evaluated in Coq; GNU ld's side is validated on every run against ld 2.40 (0 disagreements); extern C++ patterns, sym@VER definitions, "
             "anonymous scripts and shared-library version requirements are outside the generated inputs.",
        technique="Coq proof (induction over the node list relating a reverse scan to GNU ld's forward scan) + model/implementation and spec/GNU-ld correspondence on generated scripts",
        design_ref="DESIGN.md §3 C32"),
    "C09": dict(
        text="S1: Gallina model of the relative dynamic relocations wild emits (per address site: a RELR address entry with the link-time address stored in place, or a RELA R_*_RELATIVE entry with "
             "the word zeroed; the RELR/RELA choice as made at layout time and at write time) and of the loader (RELA relative and the generic RELR decoder with bitmap entries). Theorems: for every "
             "set of sites (odd or even places, any alignments), with or without RELR, and every base, the loaded image holds target + base at every site and is unchanged elsewhere; every site is "
             "covered by exactly one dynamic relocation and every RELR entry is the even address of a site; the layout-time and write-time choices coincide (C23's obligation for these tables).",
        note="Trusted: the loader model is a specification; the tie runs an independent loader (RELA + RELR with bitmaps) on wild's real -pie/-shared outputs at two bases and checks every generated "
             "pointer word (functions, data, linker-defined symbols, addends) = target + base, coverage exactly once, RELR entries even / writable / holding an in-image address, and the RELR/RELA "
             "choice per relative site against the model. One defect repaired (fix: same RELR/RELA rule when sizing and when writing).",
        technique="Coq proof (invariant over the emission fold; loader lemmas for RELA and address-only RELR tables) + an independent loader run on real outputs",
        design_ref="DESIGN.md §3 C09"),
    "C23": dict(
        text="S2: Gallina models of the three functions that must agree for one resolution — allocate_resolution (bytes reserved), create_resolution (GOT/PLT slots addressed) and "
             "process_resolution with its TLS helpers (entries consumed, or an error). Theorem: for every combination of value flags layout can produce (the `consistent` invariants, stated "
             "explicitly), every output kind, with and without pack-relative-relocs, the writer consumes exactly what layout reserved and reports no error — a finite domain (98k cases) "
             "decided by vm_compute and lifted to a universal statement. With C09's theorem that the RELR/RELA choice per relocation site is the same at layout and write time. The other "
             "size pairs (hash tables, eh_frame_hdr, symbol tables) are covered by the link matrix only.",
        note="Trusted: the hand transcription; the layout side is tied exhaustively to the compiled allocate_resolution through a guarded hook; the writer side and the invariants through a "
             "matrix of real links (TLS access models x symbol kinds x function reference kinds x output kinds x options that change generated sections) with GNU ld as the validity oracle. "
             "Two defects repaired (RELR/RELA parity; TLS GOT entry of an undefined weak hidden symbol in a shared object — found by the model's sweep, then reproduced).",
        technique="Coq proof by reflection over a finite domain + exhaustive correspondence with allocate_resolution + link matrix against GNU ld",
        design_ref="DESIGN.md §3 C23"),
    "C11": dict(
        text="S1: Gallina model of assign_thunk_blocks over the contiguous contributions of the objects (two-mode loop, owners, a block sits at its owner's end) and of the adrp+add+br "
             "thunk. Theorems: for every list of objects no larger than M (below range = branch range - slack), every object is assigned exactly one block (indices 0..n-1 once each) and "
             "every byte of it is closer than range + M + block size to every thunk of that block — within reach whenever M + block size <= slack; the thunk template reaches its target from "
             "any position. Refuted for an object larger than the slack (model witness; reproduced as a real out-of-range link failure and recorded). Which relocations get a thunk "
             "(provably_in_range, non-primary references) and PLT/IFUNC targets are checked end to end only.",
        note="Trusted: the restated algorithm is tied to the compiled assign_thunk_blocks through a guarded hook on random size lists; end to end, clang-assembled AArch64 objects with > 128 MiB of "
             "padding are linked by wild and every generated b/bl is decoded and followed through its thunk to the intended symbol (static analysis: no AArch64 emulator here).",
        technique="Coq proof (loop invariant over the two-mode assignment) + model/implementation correspondence through a hook + static control-flow analysis of real AArch64 links",
        design_ref="DESIGN.md §3 C11"),
    "C04": dict(
        text="S1: Gallina model of the allocated part of layout_section_parts: a LOAD segment starts at the running file offset with the address moved to the next one congruent to it modulo the segment "
             "alignment (the largest alignment of anything in the segment, NOBITS included, at least the page size); each part is aligned up in both spaces and both advance by its size. Theorems: "
             "p_offset = p_vaddr (mod p_align); every part's address honours its alignment and the alignment divides p_align, so any permitted load bias keeps it; every part with file contents is "
             "at the same distance from the segment start in the file and in memory; no two parts of the whole image overlap in the file or in memory. A refutation shows what leaving NOBITS "
             "sections out of p_align does.",
        note="Partial: which sections go to which segment and the header writers are not modelled; every clause of the property (ELF/program/section header sanity, overlap, containment and "
             "permissions, no W+X, congruence, alignment, exact cover of TLS/RELRO/DYNAMIC/INTERP/PHDR/EH_FRAME/NOTE/PROPERTY segments) is evaluated on real outputs of all six kinds under page "
             "sizes, -z options, --image-base, --section-start and SECTIONS scripts, including C-library programs that are also run; the sections of every LOAD segment are re-laid by the model "
             "and compared with sh_offset/sh_addr, and p_align with seg_alignment.",
        technique="Coq proof (arithmetic of align_up/align_modulo over folds, chains of extents) + structural predicate on real outputs + model re-layout of every LOAD segment",
        design_ref="DESIGN.md §3 C04"),
    "C35": dict(
        text="S1: state machine of wild's jobserver use (activate_thread_pool's try_acquire loop until the pipe is empty, pool size = held + 1, --threads bypasses the jobserver, drop(ThreadPool) "
             "on the Ok, Err and unwinding paths gives every token back) composed with an environment of other jobs that take and return tokens at any step. Theorems over every interleaving: "
             "tokens are conserved at every step; threads <= held + 1 whenever the jobserver decides; after exit on success, error or panic wild holds nothing and the pipe has the initial "
             "count minus what other jobs still hold; the acquisition loop terminates. A refutation shows the loss when the process is killed (outside the property's quantifier).",
        note="Tie: a real jobserver (pipe fds and fifo style) with N tokens is handed to the real binary through MAKEFLAGS; success / undefined symbol / injected error / injected panic, forked and "
             "--no-fork, with --threads and with a competing job; tokens held and task count are sampled at a pause point and compared with the model; after wild and its background worker "
             "are gone (EOF on an inherited liveness pipe) the pipe must hold exactly N tokens.",
        technique="Coq proof (invariant over all interleavings of wild steps and environment steps) + runs of the real binary under a real jobserver",
        design_ref="DESIGN.md §3 C35"),
    "C26": dict(
        text="S1: work items report errors and warnings that depend on the item alone; a schedule is a permutation of the items; what wild prints is a function of the arrival sequence. Theorems: "
             "sorting the arrived errors by message and reporting the first (layout traversal, symbol resolution) or all (duplicate symbols) gives the same result for every permutation, and it is "
             "the least message; keeping one result per group and taking the first error in input order (write phase, symbol loading) does not see the schedule; the warnings form the same "
             "multiset. The arrival-order reporters the code had before (errors.pop(), ArrayQueue(1), rayon try_for_each / collect into Result) are refuted.",
        note="Partial: that an item's own reports do not depend on the schedule is assumed; only the error sites the generator reaches are tied (see trusted base). Tie: failing links with several "
             "independent problems of one class in different files under thread counts 1..16 x groupings x scheduler perturbation seeds; one distinct stderr per case and grouping; the message "
             "printed is the one the model selects.",
        technique="Coq proof (permutation invariance of sorted reporters) + differential runs of the real binary across thread counts, groupings and perturbed schedules",
        design_ref="DESIGN.md §3 C26"),
    "C06": dict(
        text="S1: the four mechanisms that keep scheduling and the previous file contents out of the output, each modelled and proved for every schedule: results stored by index equal "
             "`map f [0..n)` for every completion order; a collection sorted by a key that identifies its elements is the same list for every arrival order; per-group results parked and "
             "consumed strictly by group index come out in group order for every completion order, with nothing left parked; a buffer tiled by data and padding regions, padding zero-filled, "
             "does not depend on its previous contents (refuted without the zero fill); the build ID, a function of the bytes, inherits this.",
        note="Partial: the mechanisms are proved separately; that every meeting point of parallel work and shared state in wild uses one of them is established by differential runs only. Tie: "
             "a C corpus (debug info, mergeable strings, TLS, weak symbols) and generated programs, linked static/PIE/shared/relocatable under thread counts, groupings, string-merge experiments, "
             "perturbed schedules, fork/no-fork and over prior output states incl. --update-in-place and a running executable: all outputs byte-identical; small outputs re-derived by the "
             "model's write_regions from the layout trace over a 0xa5-filled file.",
        technique="Coq proof (permutation / completion-order invariance of the four mechanisms) + byte-for-byte differential runs of the real binary",
        design_ref="DESIGN.md §3 C06"),
    "C20": dict(
        text="S1: one input path over time: a file system that stamps every modification with a forward-moving clock and gives every new file a fresh inode; wild records the file's identity "
             "(modification time, size, device+inode) at open (before the mmap), reads through the mapping at any time, and compares at the end (also when linking failed). Theorems: any rewrite, "
             "append, touch, replacement by a freshly written file or replacement by a file carrying the old modification time and size after the open makes the verdict `changed`, whatever "
             "else happens before, between and after; an untouched input is accepted; recording the identity after the mmap is refuted (the seeded change); the pinned tree's comparison of "
             "modification times only is refuted for the time-preserving replacement (repaired in /repo); an in-place rewrite that restores the old time is refuted for any metadata comparison.",
        note="Partial: the model follows one path; that every input kind goes through FileData::open and loaded_files is exercised, not proved. Tie: object, archive, thin archive and member, -T "
             "script, implicit INPUT() script and the object it names, shared library x rewrite/append/touch/replace x every phase boundary (pause hook), failing-link variants, untouched "
             "controls, and the open->mmap window reached by strace delay injection; wild's accept/reject is compared with the model's verdict for the same trace.",
        technique="Coq proof (clock / mtime / inode monotonicity over arbitrary traces) + fault-timed runs of the real binary (pause hook, strace injection)",
        design_ref="DESIGN.md §3 C20"),
    "C25": dict(
        text="S1: the dependency file as data: prerequisites = the non-temporary loaded files in load order with later repeats dropped; the rule line rendered with Make escaping; a model of GNU "
             "Make's reading of a rule line (backslash-space, backslash-hash, $$, unescaped space separates, first unescaped colon ends the target). Theorems: the prerequisites are exactly the "
             "files read, each once; for every target and every list of names free of backslash, newline and colon, Make reads back exactly that target and those names; refuted without "
             "escaping (a name with a space becomes two prerequisites).",
        note="Partial: that loaded_files holds every file whose contents the link read is established on real links (strace of the files opened), not proved. Tie: generated links over all input "
             "kinds incl. version scripts and export lists, with hostile file names; the real file is read by the Coq reader and by GNU make 4.3, which must rerun the link after any one input "
             "is touched and not otherwise.",
        technique="Coq proof (round trip render/read for all names, exactness of the de-duplicated list) + real dependency files read by the model and by GNU make",
        design_ref="DESIGN.md §3 C25"),
    "C24": dict(
        text="S1: the `exec \"$@\" ...` line of run-with as wild renders it (plain words bare, everything else in single quotes with the quote idiom, copied inputs as \"$D\"/<quoted path>, "
             "--opt=<file> as quoted prefix + the same, the output as -o \"$OUT\") and a model of a POSIX shell reading it (single quotes, backslash, double-quoted $NAME, blank separation, "
             "backslash-newline). Theorem: for every list of arguments over all bytes and every value of D and OUT the shell reads back exactly the recorded command; corollary for one "
             "argument; the escaping wild used before is refuted.",
        note="Partial: which files get copied and the rewriting of paths inside linker scripts are not modelled; response-file contents are not modelled. Tie: generated commands with hostile "
             "names in every argument form, linked with WILD_SAVE_DIR, originals moved away, run-with replayed elsewhere with OUT set: byte-identical output; the exec line of every real "
             "script is read by the Coq reader and by bash and compared with the recorded command.",
        technique="Coq proof (quoting / shell-reading round trip for all byte strings) + real bundles replayed byte for byte, scripts read by the model and by bash",
        design_ref="DESIGN.md §3 C24"),
    "C31": dict(
        text="S1: symbols as attribute records (defined, binding, visibility, retained, version-script local, from an --exclude-libs archive, named by --export-dynamic-symbol, referenced / defined "
             "by a shared library, referenced); GNU ld's export and import rule; wild's decision as the code makes it (downgrade to local, can_export_symbol, export on load, export on a shared "
             "library's request); .symtab as locals then globals. Theorems over all 3072 attribute combinations x 4 configurations: wild exports and imports exactly what the rule says; hidden, "
             "internal, excluded, version-script-local, local, undefined and collected symbols are never exported; locals precede globals and sh_info is the boundary.",
        note="Partial: the attribute abstraction is mine; it is validated on every run against GNU ld 2.40 and against wild on generated programs. Values, sizes, types, bindings and "
             "visibilities in .symtab are checked on real outputs (st_value must point at the symbol's marker bytes; the rest as ld writes it), as is the absence of .symtab under -s.",
        technique="Coq proof (exhaustive case analysis lifted to all symbols) + real .dynsym/.symtab compared with the model and with GNU ld",
        design_ref="DESIGN.md §3 C31"),
    "C38": dict(
        text="S1: a process image (executable first, libraries in load order), the dynamic loader as first-match lookup over the modules' dynamic symbol tables, and for one symbol what wild "
             "writes into the executable's table: its own definition, a copy-relocated definition for a directly referenced object of a library, an undefined entry carrying the PLT address for a "
             "directly referenced function, a plain import otherwise. Theorems: every module observes the same address for every symbol, and one exists; hence a store through one view is seen "
             "through every other; refuted if the executable binds directly without announcing the address.",
        note="Partial: symbol versions, dlopen scopes and protected visibility are outside the model. Tie: generated three-module C programs sharing functions and objects in both directions, "
             "non-PIC, PIE and -fno-plt, lazy and -z now, linked by wild and RUN: each module reports the address it sees and the value it reads after another wrote; the executable's .dynsym "
             "entries are compared with the model's exe_entry.",
        technique="Coq proof (first-match lookup with the executable first) + generated multi-module programs linked by wild and executed",
        design_ref="DESIGN.md §3 C38"),
    "C27": dict(
        text="S1: what -r does to a relocation record and to a symbol (section concatenation with offsets, references to input section symbols retargeted to the merged section with the offset "
             "added to the addend, named symbols moved with their sections) and the final link's resolution of a record under any placement. Theorems: resolving the rewritten record equals "
             "resolving the original reference at the places the original sections and symbols finally occupy, for every grouping, placement, target kind and definition site; the same for "
             "nested partial links with composed groupings; refuted without the addend adjustment.",
        note="Partial: COMDAT groups, .eh_frame and section contents are covered by running programs only. Tie: generated C programs linked directly and through random (nested, partly GNU ld) "
             "-r groupings, static and PIE, all run and compared; generated assembly objects with per-section markers: every input relocation is found in wild's -r output and both records are "
             "resolved by the Coq model under the same placement.",
        technique="Coq proof (linear arithmetic over arbitrary groupings and placements) + behavioural differential runs + relocation records evaluated by the model",
        design_ref="DESIGN.md §3 C27"),
    "C28": dict(
        text="S1: no new model — the property compares one program under two settings of an option, and each option's transformation is modelled elsewhere. Theorems (corollaries): with and "
             "without -z pack-relative-relocs the loaded image is identical at every address and every base (from C09); a position-independent image is the static image with every address word "
             "shifted by the base and nothing else changed (from C09); a relaxed instruction has the effect of the original (C14, re-exported); every reference into a merged string section reads "
             "the bytes it read before (C07, re-exported); the GNU hash table finds every definition (C08, re-exported).",
        note="Partial: build-id modes, -z now/lazy and the SysV hash table have no theorem and are covered by the runs. Tie: generated C programs run under combinations of output kind, "
             "--relax/--no-relax, RELR on/off, hash styles (with dlsym of every exported name), build-id modes, string merging on/off, binding mode; all variants must behave the same and each "
             "option must be seen to have taken effect in the file.",
        technique="Coq proof (corollaries of the C09/C14/C07/C08 models) + behavioural differential runs across option combinations",
        design_ref="DESIGN.md §3 C28"),
    "C01": dict(
        text="S1: per class of reference (absolute word, pc-relative, GOT load, PLT call, TLS local-exec, initial-exec, general-dynamic, local-dynamic): the field value wild writes (the psABI "
             "formula over link-time addresses), the GOT slot contents and the dynamic relocation on them, the loader's action, and the address the running program then computes. Theorem: for "
             "every class, layout, addend, position-dependent or independent output, load base, thread pointer and TLS block placement, that address is where the definition is at run time plus "
             "the addend; refuted for a GOT slot without its relative relocation.",
        note="Partial: the model is a restatement of the psABI per class; which class and which slot wild picks for a given input relocation is exercised, not proved (instruction rewriting is "
             "C14, field encodings C12/C13, allocation C23). x86-64 only at run time. Tie: generated assembly modules with marker-filled arrays, functions and TLS, one accessor per (symbol, "
             "element, form), a C driver that checks every computed address against the marker and all forms against each other; static, static-PIE, PIE + library, shared + PIE; linked by "
             "wild and RUN; the same programs linked by GNU ld validate the harness.",
        technique="Coq proof (linear arithmetic over all layouts and loader choices) + self-checking generated programs linked by wild and executed, GNU ld as harness oracle",
        design_ref="DESIGN.md §3 C01"),
    "C34": dict(
        text="S1: linker-diff's comparison rule for one relocation: in each binary the address the reference resolves to, relative to the address the relocation's original symbol has in that "
             "binary; a site is reported when the relative positions differ. Theorems: nothing is reported for a binary against itself (hence a byte-identical copy), nor whenever every "
             "reference keeps its relative position under two layouts; redirecting one reference to any other address is reported, and exactly the sites of that reference are.",
        note="Partial: instruction decoding, relaxation matching and the other differs (sections, segments, symbols, eh_frame, versions) are not modelled. Tie: generated programs linked by "
             "wild (static, static PIE); the real linker-diff must exit 0 with `No differences` on itself and on an identical copy, and must report a copy with one rel32/abs64/abs32 field "
             "repointed, naming that relocation; the Coq `report` on the addresses read back from both files must name the same site.",
        technique="Coq proof (per-site comparison rule) + the real tool run on identical and on single-site-corrupted binaries",
        design_ref="DESIGN.md §3 C34"),
    "C22": dict(
        text="S1 for the parsers wild owns outright. (a) The response-file / option-string tokenizer as a total Gallina function over code points returning arguments or one of four "
             "errors: every input is answered; every list of non-empty arguments over all code points, written with a backslash before each quote, white-space character and backslash, "
             "reads back exactly; each of the four errors has an input. (b) The version-script and export-list parsers (parse_version_script, parse_version_section, parse_matcher with its "
             "extern blocks, parse_export_list, skip_comments_and_whitespace) as Gallina functions over byte lists in which every loop of the Rust code is a fuelled recursion. Theorems: for "
             "EVERY byte string and every behaviour of the glob crate both parsers end within length+1 iterations of each loop (no loop goes round without consuming a byte); the pinned tree's "
             "extern loop is refuted (no fuel suffices at end of input; repaired in /repo); printing any structured script (distinct names, parents among earlier versions, global and local "
             "patterns over letters, digits, _ . * ? without **) and parsing it back gives exactly that structure (C22_version_script_round_trip). (c) The expansion of @file arguments "
             "with its bound of 100 levels over an arbitrary file system: a file that names itself is reported at every bound, the unbounded expansion of the pinned tree never ends on it "
             "(repaired), and the bound is invisible below it. The rest of the property (ELF, archive, linker-script parsing, argument handling: no panic, abort, "
             "signal or hang on any bytes) is decided by mutation runs and by amplified inputs (one construct nested or repeated up to 200000 times) of the real binary.",
        note="Partial: the tokenizer and the version-script / export-list parsers are modelled and tied (same result — parsed structure rendered canonically, or error — on generated and "
             "mutated texts through hooks with catch_unwind; whether the glob crate accepts a pattern is a parameter of the model and such cases are skipped in the comparison; the round-trip theorem's printer is evaluated in Coq and its "
             "output parsed by wild; graphs of argument files with cycles and chains around the bound are expanded by the model and by wild). Stack depth "
             "is not a notion of the model: recursion depth is exercised by the amplified inputs. Every other parser is exercised by targeted byte mutations, truncations and token-level "
             "mutations of valid inputs and by random argument lists, under a 20 s limit; the archive iterator is also driven directly on every prefix and on header mutations. A sampled "
             "search never proves absence of crashes.",
        technique="Coq proof (tokenizer round trip and totality; termination of the version-script and export-list parsers for all inputs by a consumed-bytes measure) + model-vs-implementation on generated and mutated texts + mutation and amplification runs of the real binary",
        design_ref="DESIGN.md §3 C22"),
    "C10": dict(
        text="S1: Gallina model of what wild writes for unwinding (an FDE is kept iff the section its pc-begin points into was loaded and is not empty; one search-table entry per kept FDE with "
             "hdr-relative signed start and FDE pointer; the table sorted by the signed start) and of the consumer (the last entry with start <= pc, then the range check — what libgcc's binary "
             "search yields on a sorted table). Theorems: the table is exactly the kept FDEs (one entry each, nothing else); it is sorted by start address wherever .eh_frame_hdr lies relative "
             "to the code; for non-overlapping functions the lookup returns the FDE of every pc inside a retained function. A refutation shows what an unsigned sort key does.",
        note="Trusted: which sections are retained is C05's subject; CIE handling and FDE byte contents are checked only end to end. Tie: generated objects (per-function sections with .cfi "
             "directives, garbage-collected functions, COMDAT groups across objects, functions without unwind info, code pinned below and above .eh_frame_hdr) are linked with --eh-frame-hdr "
             "--gc-sections; .eh_frame/.eh_frame_hdr are parsed back and checked (count, strict order, entry->FDE->pc-begin, FDEs = retained functions with unwind info and their sizes) "
             "and the table is compared with the model's.",
        technique="Coq proof (stable sort properties reused from C30, lookup on sorted non-overlapping ranges) + structural parse of real outputs",
        design_ref="DESIGN.md §3 C10"),
    "C37": dict(
        text="S1 on top of C03: DT_NEEDED = the shared libraries in the verified loaded set, in command-line order. Theorems: listed iff loaded shared library; every --no-as-needed library listed; "
             "an --as-needed library listed only if some loaded file non-weakly references a name whose first definition it is; strictly increasing command-line positions (each at most once).",
        note="Trusted: as C03; DT_NEEDED read from wild's output and compared as an ordered list; soname de-duplication not exercised; references from a shared library to another shared library do "
             "not load it (wild's documented rule), which the property's 'reference from the output' wording agrees with.",
        technique="Coq proof (filter characterisation over C03's least fixed point) + model/implementation correspondence on generated link lines",
        design_ref="DESIGN.md §3 C37"),
}

PENDING_REASON = "not claimed yet: model/theorems for this property are not built in this revision (see DESIGN.md §8 construction order)"
