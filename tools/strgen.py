"""Generator of objects with SHF_MERGE|SHF_STRINGS sections and a self-checking program (shared by C40, C07, C06)."""
import random


def make(rng, nobj, nstr, dup=0.3, longs=True):
    """returns ({filename: asm}, expected exit code 0).  Each object has nstr strings in .rodata.str1.1; _start compares
    every referenced string (also at offsets into the middle) with an unmerged copy kept in .data and exits 0 iff all equal."""
    pool = []
    alphabet = "abcdefghijklmnopqrstuvwxyz0123456789_-/ "
    def newstr():
        n = rng.choice([0, 1, 2, 3, 5, 8, 13, 40]) if not (longs and rng.random() < 0.05) else rng.choice([255, 256, 257, 700])
        return "".join(rng.choice(alphabet) for _ in range(n))
    files = {}
    checks = []   # (label in merge section, offset, label of plain copy, offset)
    for k in range(nobj):
        s = ['.section .rodata.str1.1,"aMS",@progbits,1']
        plain = ['.section .data.copies,"aw",@progbits']
        for i in range(nstr):
            if pool and rng.random() < dup:
                t = rng.choice(pool)
                if rng.random() < 0.3 and len(t) > 1:
                    t = t[rng.randrange(len(t)):]        # a suffix of an existing string
            else:
                t = newstr()
                pool.append(t)
            s.append(f'ms{k}_{i}: .string "{t}"')
            plain.append(f'pc{k}_{i}: .string "{t}"')
            if rng.random() < 0.5:
                off = rng.randrange(len(t) + 1) if rng.random() < 0.4 else 0
                checks.append((f"ms{k}_{i}", off, f"pc{k}_{i}", off))
        files[f"s{k}.s"] = "\n".join(s) + "\n" + "\n".join(plain) + "\n"
    m = ['.section .data.table,"aw",@progbits', "table:"]
    for (a, ao, b, bo) in checks:
        m.append(f" .quad {a}+{ao}, {b}+{bo}")
    m.append(" .quad 0, 0")
    # also references through the section symbol with an addend are produced by the assembler for local labels: make the labels local
    m.append('.section .text._start,"ax",@progbits\n.globl _start\n_start:\n lea table(%rip),%rbx\n1: mov (%rbx),%rsi\n mov 8(%rbx),%rdi\n test %rsi,%rsi\n jz 8f\n'
             '2: mov (%rsi),%al\n cmp (%rdi),%al\n jne 9f\n inc %rsi\n inc %rdi\n test %al,%al\n jnz 2b\n add $16,%rbx\n jmp 1b\n'
             '8: xor %edi,%edi\n mov $60,%eax\n syscall\n9: mov $1,%edi\n mov $60,%eax\n syscall\n')
    # all labels are referenced across files: declare them global in their files
    for k in range(nobj):
        decl = "".join(f".globl ms{k}_{i}\n.globl pc{k}_{i}\n" for i in range(nstr))
        files[f"s{k}.s"] = decl + files[f"s{k}.s"]
    files["main.s"] = "\n".join(m) + "\n"
    return files
