#!/usr/bin/env python3
import json, os, sys
sys.path.insert(0, os.path.dirname(os.path.abspath(__file__)))

import registry
ROOT = os.path.dirname(os.path.dirname(os.path.abspath(__file__)))
props = [json.loads(l)["id"] for l in open(os.path.join(ROOT, "properties.jsonl"))]
baseline = json.load(open("/root/.vp/BASELINE.json"))["cmd"]
hooks_commits = []
try:
    import subprocess
    out = subprocess.run(["git", "-C", "/repo", "log", "--format=%H %s"], capture_output=True, text=True).stdout
    hooks_commits = [l.split()[0] for l in out.splitlines() if l.split(" ", 1)[1].startswith("verif_hooks")]
except Exception:
    pass
m = {
    "version": 1,
    "setup_cmd": "./wv setup",
    "hooks": {
        "guard": "cargo feature `verif_hooks` on libwild (off by default)",
        "enable": "cargo build --features libwild/verif_hooks (wild binary) / path dependency libwild with features=[\"verif_hooks\"] (harness)",
        "baseline_off_cmd": baseline,
        "source_commits": hooks_commits,
        "add_only": True,
    },
    "engines": [{"name": "coq+wvh", "path": "/verif/wv", "serves_properties": sorted(registry.CLAIMED),
                 "kind_free_text": "Coq 8.16 theories (coq/), Rust correspondence harness (harness/), python drivers (tools/)"}],
    "checks": [],
    "not_applicable": [],
    "notes": "Single entry point ./wv check <id> --tier quick|thorough. See DESIGN.md.",
}
na = getattr(registry, "NOT_APPLICABLE", {})
for p in props:
    if p in registry.CLAIMED:
        c = registry.CLAIMED[p]
        m["checks"].append({
            "property_id": p,
            "quick_cmd": f"./wv check {p} --tier quick",
            "thorough_cmd": f"./wv check {p} --tier thorough",
            "evidence_file": f"/verif/evidence/{p}.json",
            "replay_cmd_template": f"./wv check {p} --replay {{path}}",
            "engine": "coq+wvh",
            "level_claimed": {"category": "proof", "text": c["text"], "design_ref": c["design_ref"] + "; as built: DESIGN.md §10.1"},
            "level_note": c["note"],
            "technique": c["technique"],
        })
    else:
        m["not_applicable"].append({"property_id": p, "reason": na.get(p, registry.PENDING_REASON)})
json.dump(m, open(os.path.join(ROOT, "MANIFEST.json"), "w"), indent=1)
print("MANIFEST.json:", len(m["checks"]), "checks,", len(m["not_applicable"]), "unclaimed")
