#!/usr/bin/env python3
"""Confirm a seeded change produced by a sub-agent and run our check against it.
usage: seeded.py <PROP> <worktree> [--name NAME] [--skip-suite]
Steps (all in the scratch worktree, never in /repo except the apply/check/revert at the end):
  1. copy demo/ to /verif/seeded/<name>/
  2. demo with patch applied must FAIL; with patch reverted must PASS
  3. test suite with the patch: only the 4 known failures
  4. git -C /repo apply patch; ./wv check PROP; git -C /repo checkout -- .
"""
import json, os, subprocess, sys, shutil, re, time
prop, wt = sys.argv[1], sys.argv[2]
name = prop
if "--name" in sys.argv:
    name = sys.argv[sys.argv.index("--name") + 1]
skip_suite = "--skip-suite" in sys.argv
suite_only = "--suite-only" in sys.argv
dst = f"/verif/seeded/{name}"
os.makedirs(dst, exist_ok=True)
KNOWN_FAIL = ["check_sources_format", "z-pack-relative-relocs", "symbolic-non-weak", "tls-apx-relocs"]


def sh(cmd, cwd=None, timeout=3600):
    p = subprocess.run(cmd, shell=True, cwd=cwd, stdout=subprocess.PIPE, stderr=subprocess.STDOUT, text=True, timeout=timeout)
    return p.returncode, p.stdout


for f in os.listdir(f"{wt}/demo"):
    src = f"{wt}/demo/{f}"
    if f in ("build", "target") or f.endswith(".log"):
        continue
    if os.path.isdir(src):
        shutil.copytree(src, f"{dst}/{f}", dirs_exist_ok=True, ignore=shutil.ignore_patterns("target", "build", "*.o", "*.out"))
    elif os.path.getsize(src) < 200000:
        shutil.copy(src, dst)
old_meta = json.load(open(f"{dst}/meta.json")) if os.path.exists(f"{dst}/meta.json") else {}
meta = {"property": prop, "worktree_head": sh("git rev-parse HEAD", wt)[1].strip(), "ran": []}
# make sure patch is applied
rc, _ = sh("git apply --check -R demo/patch.diff", wt)
if rc != 0:
    rc, o = sh("git apply demo/patch.diff", wt)
    assert rc == 0, o
rc1, o1 = sh("bash demo/run_demo.sh", wt)
meta["ran"].append({"cmd": "bash demo/run_demo.sh (patch applied)", "rc": rc1, "tail": o1[-600:]})
sh("git apply -R demo/patch.diff", wt)
rc0, o0 = sh("bash demo/run_demo.sh", wt)
meta["ran"].append({"cmd": "bash demo/run_demo.sh (patch reverted)", "rc": rc0, "tail": o0[-600:]})
sh("git apply demo/patch.diff", wt)
meta["demo_fails_with_patch"] = rc1 != 0
meta["demo_passes_without_patch"] = rc0 == 0
if not skip_suite:
    rc, o = sh("cargo nextest run --workspace --no-fail-fast --offline --test-threads 6 2>&1 | tail -40", wt, timeout=5400)
    fails = sorted(set(re.findall(r"^\s+FAIL\s+\[[^\]]*\]\s+(.*)$", o, re.M)))
    unexpected = [f for f in fails if not any(k in f for k in KNOWN_FAIL)]
    meta["ran"].append({"cmd": "cargo nextest run --workspace --no-fail-fast --offline (patch applied)", "summary": [l for l in o.splitlines() if "Summary" in l or "tests run" in l], "failures": fails})
    # load-induced flakes: rerun unexpected ones alone
    still = []
    for f in unexpected:
        t = f.split()[-1]
        rc, o2 = sh(f"cargo nextest run --workspace --offline -- '{t}' 2>&1 | tail -5", wt, timeout=1800)
        if rc != 0:
            still.append(f)
    meta["suite_unexpected_failures_after_solo_rerun"] = still
    meta["suite_passes_with_patch"] = not still
if suite_only:
    for k in ("applies_to_repo", "our_check", "caught", "needs_to_manifest"):
        if k in old_meta:
            meta[k] = old_meta[k]
    json.dump(meta, open(f"{dst}/meta.json", "w"), indent=1)
    print(json.dumps({k: v for k, v in meta.items() if k != "ran"}, indent=1))
    sys.exit(0)
for k in ("suite_passes_with_patch", "suite_unexpected_failures_after_solo_rerun"):
    if skip_suite and k in old_meta:
        meta[k] = old_meta[k]
if skip_suite and old_meta.get("ran"):
    meta["ran"] += [r for r in old_meta["ran"] if "nextest" in r.get("cmd", "")]
# our check against it
rc, o = sh(f"git -C /repo apply --check {dst}/patch.diff")
if rc != 0:
    meta["applies_to_repo"] = False
    meta["apply_error"] = o[-500:]
else:
    meta["applies_to_repo"] = True
    sh(f"git -C /repo apply {dst}/patch.diff")
    try:
        t0 = time.time()
        rc, o = sh(f"./wv check {prop} --tier quick", "/verif", timeout=3600)
        meta["our_check"] = {"cmd": f"./wv check {prop} --tier quick", "rc": rc, "wall_s": round(time.time() - t0),
                             "lines": [l for l in o.splitlines() if l.startswith(("VIOLATION", "KNOWN-FINDING", "OK "))]}
        m = re.search(r"replay=(\S+)", o)
        if m and os.path.exists(m.group(1)):
            shutil.copy(m.group(1), f"{dst}/replay_found_by_check.json")
        meta["caught"] = rc == 1
    finally:
        sh("git -C /repo checkout -- .")
        sh("git -C /repo status --short")
json.dump(meta, open(f"{dst}/meta.json", "w"), indent=1)
print(json.dumps({k: v for k, v in meta.items() if k != "ran"}, indent=1))
