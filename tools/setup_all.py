"""./wv setup — build everything once, offline, from files on disk."""
from wvlib import *


def main():
    t0 = time.time()
    os.makedirs(CACHE, exist_ok=True)
    with Lock("coq"):
        coq_prepare()
        rc, out = sh(f"timeout 3000 make -f Makefile.coq -j{NCPU}", cwd=COQ)
    print(out[-1500:])
    if rc != 0:
        print("setup: coq build failed")
        return 1
    for rel in (False, True):
        ok, out, _ = harness_build(rel)
        if not ok:
            print(out[-3000:])
            print("setup: harness build failed")
            return 1
    ok, out, _ = wild_build()
    if not ok:
        print(out[-3000:])
        print("setup: wild build failed")
        return 1
    print(f"setup ok in {time.time() - t0:.0f}s")
    return 0
