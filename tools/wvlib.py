"""Shared machinery for the wild verification checks (see DESIGN.md §1.2).

Every check = (Coq build of the property's theories: proofs + hygiene + assumptions)
            + (tie: implementation vs model on generated cases, model evaluated by coqc/vm_compute)
            + (the property's own executable predicate on the implementation's outputs)
            + verdict, evidence file.
"""
import fcntl
import hashlib
import json
import os
import random
import re
import shutil
import subprocess
import sys
import time
from concurrent.futures import ThreadPoolExecutor

ROOT = os.path.dirname(os.path.dirname(os.path.abspath(__file__)))
COQ = os.path.join(ROOT, "coq")
CACHE = os.path.join(ROOT, ".cache")
TARGET = os.path.join(CACHE, "target")
HARNESS = os.path.join(ROOT, "harness")
REPO = os.environ.get("WV_REPO", "/repo")
EVID = os.path.join(ROOT, "evidence")
REPLAY = os.path.join(ROOT, "replay")
NCPU = os.cpu_count() or 4

OFFLINE_ENV = {"CARGO_NET_OFFLINE": "true", "CARGO_TARGET_DIR": TARGET}

FORBIDDEN = re.compile(
    r"\b(Admitted|admit|Axiom|Axioms|Parameter|Parameters|Conjecture|Conjectures|Admit Obligations|"
    r"Unset Guard Checking|Unset Positivity Checking|Unset Universe Checking|bypass_check|"
    r"type-in-type|impredicative-set|native_compute)\b")
# standard-library axioms we allow if Print Assumptions reports them (none needed so far)
AXIOM_ALLOW = {
    "functional_extensionality_dep", "FunctionalExtensionality.functional_extensionality_dep",
    "Eqdep.Eq_rect_eq.eq_rect_eq", "Classical_Prop.classic", "ProofIrrelevance.proof_irrelevance",
    "JMeq.JMeq_eq",
}


def log(*a):
    print(*a, file=sys.stderr, flush=True)


def sh(cmd, timeout=None, env=None, cwd=None, input=None, check=False):
    e = dict(os.environ)
    if env:
        e.update(env)
    p = subprocess.run(cmd, shell=isinstance(cmd, str), cwd=cwd, env=e, input=input,
                       stdout=subprocess.PIPE, stderr=subprocess.STDOUT, timeout=timeout,
                       text=True)
    if check and p.returncode != 0:
        raise RuntimeError(f"command failed ({p.returncode}): {cmd}\n{p.stdout[-4000:]}")
    return p.returncode, p.stdout


class Lock:
    def __init__(self, name):
        os.makedirs(CACHE, exist_ok=True)
        self.path = os.path.join(CACHE, name + ".lock")

    def __enter__(self):
        self.f = open(self.path, "w")
        fcntl.flock(self.f, fcntl.LOCK_EX)

    def __exit__(self, *a):
        fcntl.flock(self.f, fcntl.LOCK_UN)
        self.f.close()


# ----------------------------------------------------------------------------- Coq

def coq_files():
    out = []
    for d, _, fs in os.walk(COQ):
        for f in fs:
            if f.endswith(".v") and not f.startswith("."):
                out.append(os.path.relpath(os.path.join(d, f), COQ))
    return sorted(out)


def write_if_changed(path, content):
    try:
        if open(path).read() == content:
            return False
    except OSError:
        pass
    os.makedirs(os.path.dirname(path), exist_ok=True)
    with open(path, "w") as f:
        f.write(content)
    return True


def coq_prepare():
    files = coq_files()
    proj = "-Q . WV\n" + "\n".join(files) + "\n"
    changed = write_if_changed(os.path.join(COQ, "_CoqProject"), proj)
    if changed or not os.path.exists(os.path.join(COQ, "Makefile.coq")):
        sh("coq_makefile -f _CoqProject -o Makefile.coq", cwd=COQ, check=True)


def coq_hygiene(dirs):
    """grep the sources of the given theory dirs for anything that declares an axiom or switches
    off a kernel check.  Comments are stripped first."""
    bad = []
    for rel in coq_files():
        if rel.split("/")[0] not in dirs:
            continue
        src = open(os.path.join(COQ, rel)).read()
        src_nc = strip_coq_comments(src)
        for m in FORBIDDEN.finditer(src_nc):
            bad.append(f"{rel}: {m.group(0)}")
        # Variable/Hypothesis outside a section
        depth = 0
        for line in src_nc.splitlines():
            s = line.strip()
            if re.match(r"Section\b", s):
                depth += 1
            elif re.match(r"End\b", s) and depth > 0:
                depth -= 1
            elif depth == 0 and re.match(r"(Variable|Variables|Hypothesis|Hypotheses|Context)\b", s):
                bad.append(f"{rel}: section-less {s.split()[0]}")
    return bad


def strip_coq_comments(src):
    out = []
    depth = 0
    i = 0
    n = len(src)
    instr = False
    while i < n:
        if not instr and src.startswith("(*", i):
            depth += 1
            i += 2
            continue
        if not instr and depth > 0 and src.startswith("*)", i):
            depth -= 1
            i += 2
            continue
        c = src[i]
        if depth == 0:
            if c == '"':
                instr = not instr
            out.append(c)
        i += 1
    return "".join(out)


def count_obligations(dirs):
    n = 0
    names = []
    for rel in coq_files():
        if rel.split("/")[0] not in dirs:
            continue
        src = strip_coq_comments(open(os.path.join(COQ, rel)).read())
        for m in re.finditer(r"^\s*(Theorem|Lemma|Example|Corollary|Fact|Proposition)\s+([A-Za-z0-9_']+)", src, re.M):
            n += 1
            names.append(m.group(2))
    return n, names


def coq_build(dirs, props_files, timeout=1500):
    """Build the .vo closure of the given Props/Witness files (full .vo, never -vos).
    Props files are always recompiled so that Print Assumptions output is obtained on this run.
    Returns dict(ok, log, assumptions{thm: [axioms]}, hygiene[], obligations, names)."""
    with Lock("coq"):
        coq_prepare()
        for pf in props_files:
            vo = os.path.join(COQ, pf[:-2] + ".vo")
            if os.path.exists(vo):
                os.remove(vo)
        targets = " ".join(pf[:-2] + ".vo" for pf in props_files)
        rc, out = sh(f"timeout {timeout} make -f Makefile.coq -j{NCPU} {targets}", cwd=COQ)
    res = {"ok": rc == 0, "log": out, "rc": rc}
    res["hygiene"] = coq_hygiene(dirs)
    res["obligations"], res["names"] = count_obligations(dirs)
    # parse Print Assumptions
    assum = []
    closed = len(re.findall(r"^Closed under the global context", out, re.M))
    axioms = []
    for m in re.finditer(r"^Axioms:\n((?:.+\n)+?)(?=^\S|\Z)", out, re.M):
        for line in m.group(1).splitlines():
            mm = re.match(r"^(\S+)\s*:", line)
            if mm:
                axioms.append(mm.group(1))
    res["closed"] = closed
    res["axioms"] = sorted(set(axioms))
    res["axioms_disallowed"] = [a for a in res["axioms"] if a not in AXIOM_ALLOW and a.split(".")[-1] not in AXIOM_ALLOW]
    # failing file/theorem, if any
    m = re.search(r'File "\./([^"]+)", line (\d+)', out)
    res["failed_at"] = f"{m.group(1)}:{m.group(2)}" if (m and rc != 0) else None
    return res


def coq_eval(name, body, imports, timeout=600):
    """Evaluate a cases file with coqc.  Returns (rc, stdout)."""
    d = os.path.join(CACHE, "run")
    os.makedirs(d, exist_ok=True)
    path = os.path.join(d, name + ".v")
    with open(path, "w") as f:
        f.write(imports + "\n" + body)
    rc, out = sh(f"timeout {timeout} coqc -noglob -Q {COQ} WV {path}", cwd=d)
    for ext in (".v", ".vo", ".vok", ".vos", ".glob"):
        try:
            os.remove(path[:-2] + ext)
        except OSError:
            pass
    try:
        os.remove(os.path.join(d, "." + name + ".aux"))
    except OSError:
        pass
    return rc, out


def parse_coq_value(out):
    """Parse the first `= <term> : type` answer printed by Eval into nested python lists of ints.
    Accepted syntax: lists [a; b], pairs (a, b), integers with optional %N/%Z, None/Some x,
    true/false."""
    m = re.search(r"=\s(.*?)\n\s*:\s", out, re.S)
    if not m:
        raise ValueError("no Eval answer in coqc output:\n" + out[-2000:])
    return parse_term(m.group(1))


def parse_all_coq_values(out):
    vals = []
    for m in re.finditer(r"^\s*=\s(.*?)\n\s*:\s[^\n]*(?:\n(?!\s*=\s)[^\n=]*)*", out, re.S | re.M):
        vals.append(parse_term(m.group(1)))
    return vals


def parse_term(s):
    toks = re.findall(r"\[|\]|\(|\)|;|,|-?\d+|[A-Za-z_][A-Za-z0-9_']*|%[A-Za-z]+", s)
    toks = [t for t in toks if not t.startswith("%")]
    pos = 0

    def atom():
        nonlocal pos
        t = toks[pos]
        if t == "[":
            pos += 1
            items = []
            if toks[pos] == "]":
                pos += 1
                return items
            while True:
                items.append(app())
                if toks[pos] == ";":
                    pos += 1
                    continue
                if toks[pos] == "]":
                    pos += 1
                    return items
                raise ValueError("bad list at " + " ".join(toks[pos:pos + 5]))
        if t == "(":
            pos += 1
            items = [app()]
            while toks[pos] == ",":
                pos += 1
                items.append(app())
            assert toks[pos] == ")", toks[pos:pos + 5]
            pos += 1
            return tuple(items) if len(items) > 1 else items[0]
        pos += 1
        if re.match(r"-?\d+$", t):
            return int(t)
        if t == "true":
            return True
        if t == "false":
            return False
        if t == "None":
            return None
        return ("@", t)

    def app():
        nonlocal pos
        h = atom()
        if isinstance(h, tuple) and len(h) == 2 and h[0] == "@":
            args = []
            while pos < len(toks) and toks[pos] not in ("]", ")", ";", ","):
                args.append(atom())
            if h[1] == "Some" and len(args) == 1:
                return ("Some", args[0])
            return (h[1], *args) if args else h[1]
        return h

    v = app()
    return v


def coq_eval_sharded(name, imports, shard_bodies, timeout=600):
    """Run several cases files in parallel; returns list of (rc, out)."""
    with ThreadPoolExecutor(max_workers=NCPU) as ex:
        futs = [ex.submit(coq_eval, f"{name}_{os.getpid()}_{i}", b, imports, timeout)
                for i, b in enumerate(shard_bodies)]
        return [f.result() for f in futs]


# ----------------------------------------------------------------------------- Rust

def harness_build(release=False):
    """(Re)build the harness against /repo's current working tree, offline."""
    with Lock("cargo"):
        shutil.copyfile(os.path.join(REPO, "Cargo.lock"), os.path.join(HARNESS, "Cargo.lock"))
        cmd = "cargo build --offline" + (" --release" if release else "")
        rc, out = sh(cmd, cwd=HARNESS, env=OFFLINE_ENV, timeout=3000)
    path = os.path.join(TARGET, "release" if release else "debug", "wvh")
    return rc == 0, out, path


def wild_build():
    """Build the wild binary from /repo's working tree with hooks on."""
    with Lock("cargo"):
        rc, out = sh(f"cargo build --offline --manifest-path {REPO}/Cargo.toml -p wild-linker "
                     f"--features libwild/verif_hooks --bin wild",
                     env=OFFLINE_ENV, timeout=3000)
    return rc == 0, out, os.path.join(TARGET, "debug", "wild")


def run_impl(binpath, subcmd, lines, timeout=600):
    data = "\n".join(lines) + "\n"
    p = subprocess.run([binpath, subcmd], input=data, stdout=subprocess.PIPE,
                       stderr=subprocess.PIPE, text=True, timeout=timeout)
    out = p.stdout.split("\n")
    if out and out[-1] == "":
        out.pop()
    if len(out) != len(lines):
        raise RuntimeError(f"harness {subcmd}: {len(lines)} cases, {len(out)} outputs, rc={p.returncode}\n{p.stderr[-2000:]}")
    return out


# ----------------------------------------------------------------------------- verdicts

def known_findings():
    p = os.path.join(ROOT, "known_findings.json")
    if not os.path.exists(p):
        return []
    return json.load(open(p))["findings"]


class Check:
    def __init__(self, prop, tier, seed):
        self.prop = prop
        self.tier = tier
        self.seed = seed
        self.t0 = time.time()
        self.cov = {}
        self.assumptions = []
        self.violations = []      # (what, replay_obj)
        self.tie_breaks = []      # (what, detail_obj)  proof / translator / correspondence broken
        self.known_hits = {}      # finding id -> example
        self.rng = random.Random(seed)
        self.known = [k for k in known_findings() if k["property"] == prop and k.get("status") == "known"]
        for f in (f"{prop}-tie.json", f"{prop}-{seed}.json"):
            try:
                os.remove(os.path.join(REPLAY, f))
            except OSError:
                pass

    def violation(self, what, replay_obj):
        self.violations.append((what, replay_obj))

    def tie_break(self, what, detail):
        self.tie_breaks.append((what, detail))

    def known_hit(self, fid, example):
        self.known_hits.setdefault(fid, example)

    def add_coq(self, res):
        """Account for a coq_build result: broken proofs / hygiene / axioms are tie breaks."""
        self.cov["obligations"] = self.cov.get("obligations", 0) + res["obligations"]
        self.cov["discharged"] = self.cov.get("discharged", 0) + (res["obligations"] if res["ok"] else 0)
        self.cov.setdefault("print_assumptions", []).append(
            {"closed_under_global_context": res["closed"], "axioms": res["axioms"]})
        if not res["ok"]:
            self.tie_break("coq proof/build broken at " + str(res["failed_at"]), res["log"][-3000:])
        if res["hygiene"]:
            self.tie_break("hygiene: forbidden construct", res["hygiene"])
        if res["axioms_disallowed"]:
            self.tie_break("axiom outside allow-list", res["axioms_disallowed"])

    def finish(self, level_note_trusted):
        os.makedirs(EVID, exist_ok=True)
        os.makedirs(REPLAY, exist_ok=True)
        rc = 0
        lines = []
        for fid, ex in self.known_hits.items():
            k = [k for k in self.known if k["id"] == fid][0]
            lines.append(f"KNOWN-FINDING: property={self.prop} {k['what']}")
        if self.violations:
            what, obj = self.violations[0]
            path = os.path.join(REPLAY, f"{self.prop}-{self.seed}.json")
            json.dump({"property": self.prop, "what": what, "replay": obj,
                       "all": [{"what": w, "replay": o} for w, o in self.violations[:20]],
                       "also_no_longer_checks": [{"what": w, "detail": d} for w, d in self.tie_breaks[:20]],
                       "rerun": f"./wv check {self.prop} --replay {path}"},
                      open(path, "w"), indent=1, default=str)
            lines.append(f"VIOLATION property={self.prop} replay={path}")
            rc = 1
        elif self.tie_breaks:
            path = os.path.join(REPLAY, f"{self.prop}-tie.json")
            json.dump({"property": self.prop,
                       "no_longer_checks": [{"what": w, "detail": d} for w, d in self.tie_breaks[:20]],
                       "search": "corpus + boundary lattice + generated cases evaluated against the "
                                 "property predicate on the implementation; no failing input found"},
                      open(path, "w"), indent=1, default=str)
            lines.append(f"VIOLATION property={self.prop} replay={path} no-failing-input-found")
            rc = 1
        cov = dict(self.cov)
        cov.setdefault("checker_cmd", "make -f Makefile.coq <Props>.vo (coqc 8.16.1, full .vo) + coqc cases (vm_compute)")
        cov.setdefault("trusted_base", level_note_trusted)
        ev = {
            "property_id": self.prop, "tier": self.tier, "seed": self.seed, "level": "proof",
            "coverage": cov, "assumptions": self.assumptions,
            "wall_s": round(time.time() - self.t0, 2),
            "violations": len(self.violations) + (1 if (self.tie_breaks and not self.violations) else 0),
            "known_findings_hit": sorted(self.known_hits.keys()),
        }
        json.dump(ev, open(os.path.join(EVID, f"{self.prop}.json"), "w"), indent=1, default=str)
        for l in lines:
            print(l, flush=True)
        if rc == 0:
            print(f"OK property={self.prop} tier={self.tier} seed={self.seed} wall={ev['wall_s']}s", flush=True)
        return rc


def u64_lattice(rng, exps, nrand):
    W = 1 << 64
    s = set()
    for e in exps:
        a = 1 << e
        for k in (0, 1, 2, 3, 0x987, (W // a) - 2, (W // a) - 1, W // a):
            for d in (-2, -1, 0, 1, 2):
                v = k * a + d
                if 0 <= v < W:
                    s.add(v)
    for b in range(64):
        for d in (-1, 0, 1):
            v = (1 << b) + d
            if 0 <= v < W:
                s.add(v)
    s.update([0, 1, W - 1, W - 2])
    out = sorted(s)
    for _ in range(nrand):
        bits = rng.randrange(1, 65)
        out.append(rng.getrandbits(bits))
    return out
