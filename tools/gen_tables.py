"""T1: regenerate coq/Gen/RelocTables.v from the COMPILED relocation tables of /repo's working tree
(rustc is the parser: `wvh dump` evaluates the pub const fns on every r_type)."""
from wvlib import *

ARCHES = ["x86_64", "aarch64", "riscv64", "loongarch64"]
INSNS = ["A64.Adr", "A64.Movkz", "A64.Movnz", "A64.Ldr", "A64.LdrRegister", "A64.Add", "A64.LdSt", "A64.TstBr", "A64.Bcond",
         "A64.JumpCall", "RV.UiType", "RV.UType", "RV.IType", "RV.SType", "RV.BType", "RV.JType", "RV.CbType", "RV.CjType",
         "RV.CluiType", "LA.Shift5", "LA.Shift10", "LA.Branch21", "LA.Branch26", "LA.Call30", "LA.Call36"]
MAXT = 1400


def dump_rows(binp):
    dl = [f"{a} {t}" for a in ARCHES for t in range(MAXT)]
    out = run_impl(binp, "dump", dl)
    rows = []
    for l, r in zip(dl, out):
        if r == "-":
            continue
        a, t = l.split()
        f = [x.strip() for x in r.split("|")]
        kind = f[0]
        sz = f[1].split()
        if sz[0] == "B":
            size = ("B", int(sz[1]))
        else:
            size = ("M", sz[1], int(sz[2]), int(sz[3]))
        mask = f[2]
        mn, mx = [int(x) for x in f[3].split()]
        rows.append(dict(arch=a, t=int(t), kind=kind, size=size, mask=mask, min=mn, max=mx, align=int(f[4]), bias=int(f[5]),
                         thunk=f[6] == "true"))
    return rows


def z(n):
    return f"({n})" if n < 0 else str(n)


def emit(rows):
    lines = ["(* GENERATED on every run by tools/gen_tables.py from the compiled relocation tables of /repo. DO NOT EDIT. *)",
             "From Coq Require Import ZArith List.", "From WV Require Import C12.Types.", "Import ListNotations.", "Open Scope Z_scope.",
             "Definition rows : list row := ["]
    items = []
    for r in rows:
        if r["size"][0] == "B":
            sz = f"RBytes {r['size'][1]}"
        else:
            sz = f"RBits {INSNS.index(r['size'][1])} {r['size'][2]} {r['size'][3]}"
        items.append(f" {{| r_arch := {ARCHES.index(r['arch'])}; r_type := {r['t']}; r_size := {sz}; "
                     f"r_masked := {'false' if r['mask'] == 'nomask' else 'true'}; r_min := {z(r['min'])}; r_max := {z(r['max'])}; r_align := {r['align']} |}}")
    lines.append(";\n".join(items))
    lines.append("].")
    return "\n".join(lines) + "\n"


def regenerate(binp):
    rows = dump_rows(binp)
    changed = write_if_changed(os.path.join(COQ, "Gen", "RelocTables.v"), emit(rows))
    return rows, changed


if __name__ == "__main__":
    ok, out, binp = harness_build(False)
    rows, ch = regenerate(binp)
    print(len(rows), "rows; changed:", ch)
