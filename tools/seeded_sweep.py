#!/usr/bin/env python3
"""Re-run every kept seeded change against the current checks: apply to /repo, run the quick check of its property,
expect a VIOLATION, undo.  Writes seeded/SWEEP.json.  /repo must be clean and nothing else may be using it."""
import json, os, subprocess, sys, time
ROOT = os.path.dirname(os.path.dirname(os.path.abspath(__file__)))
only = sys.argv[1:]


def sh(cmd, timeout=3600):
    p = subprocess.run(cmd, shell=True, cwd=ROOT, stdout=subprocess.PIPE, stderr=subprocess.STDOUT, text=True, timeout=timeout)
    return p.returncode, p.stdout


assert sh("git -C /repo status --porcelain")[1].strip() == "", "/repo is not clean"
out = {}
for name in sorted(os.listdir(f"{ROOT}/seeded")):
    d = f"{ROOT}/seeded/{name}"
    if not os.path.isdir(d) or (only and name not in only):
        continue
    meta = json.load(open(f"{d}/meta.json"))
    prop = meta.get("property", name[:3])
    patch = next((f"{d}/{f}" for f in ("patch_ported.diff", "patch.ported.diff", "patch.diff") if os.path.exists(f"{d}/{f}")), None)
    rc, o = sh(f"git -C /repo apply {patch}")
    if rc != 0:
        out[name] = {"applies": False, "error": o[-300:]}
        continue
    t0 = time.time()
    try:
        tier = meta.get("our_check", {}).get("cmd", "")
        tier = "thorough" if "thorough" in tier else "quick"
        rc, o = sh(f"./wv check {prop} --tier {tier}", timeout=5400)
    finally:
        sh("git -C /repo checkout -- .")
    lines = [l[:200] for l in o.splitlines() if l.startswith(("VIOLATION", "OK"))]
    out[name] = {"applies": True, "property": prop, "tier": tier, "rc": rc, "lines": lines, "caught": rc == 1 and any(l.startswith("VIOLATION") for l in lines), "wall_s": round(time.time() - t0)}
    print(name, out[name]["caught"], lines, flush=True)
    json.dump(out, open(f"{ROOT}/seeded/SWEEP.json", "w"), indent=1)
assert sh("git -C /repo status --porcelain")[1].strip() == ""
print("caught", sum(1 for v in out.values() if v.get("caught")), "of", len(out))
